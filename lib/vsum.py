import sys,json,collections
c=collections.Counter(); ex={}
S=None
for l in sys.stdin:
    if l.startswith('V '):
        v=json.loads(l[2:]); k=(v['violation']['property'],v['violation']['oracle'],v['violation']['api'])
        c[k]+=1; ex.setdefault(k,v)
    elif l.startswith('S '): S=json.loads(l[2:])
    elif l.startswith('FATAL'): print(l.strip())
for k,n in c.most_common(12):
    print(k,n); print('   ',ex[k]['violation']['detail'][:500])
if S:
    S.pop('samples',None); print({k:S[k] for k in ('runs','steps','nontrivial_runs','violating_runs','wall_s','cover_count','faults','reach')})
