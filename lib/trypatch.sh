#!/bin/bash
# usage: trypatch.sh <patch> <PROP> [tier]   — apply a seeded change to /repo, run one check, undo it
set -u
patch="$1"; prop="$2"; tier="${3:-quick}"
cd /repo || exit 2
if ! git diff --quiet; then echo "repo dirty"; exit 2; fi
git apply "$patch" || { echo "patch does not apply"; exit 2; }
cd /verif && ./check "$prop" "$tier" 2>&1 | grep -E "^(VIOLATION|KNOWN|HARNESS|\[done\]|\[diff\]|error)" | cut -c1-400
rc=${PIPESTATUS[0]}
git -C /repo checkout -- . 
echo "rc=$rc"
