#!/bin/bash
# usage: tryall.sh <patch>  — apply a change to /repo, run EVERY quick check, undo it; prints one line per check
set -u
patch="$1"
cd /repo || exit 2
if ! git diff --quiet; then echo "repo dirty"; exit 2; fi
git apply "$patch" || { echo "patch does not apply"; exit 2; }
cd /verif
for p in C04 C09 C11 C14 C15 C16 C17 C18; do
  out=$(./check $p quick 2>&1); rc=$?
  echo "$p rc=$rc $(echo "$out" | grep -E '^(VIOLATION|HARNESS)' | head -2 | cut -c1-220 | tr '\n' ' ')"
done
git -C /repo checkout -- .
rm -f /verif/replays/*.plan
