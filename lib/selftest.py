"""Self tests of the simulator: determinism and sensitivity (DESIGN.md 2.6).

  ./check selftest determinism [N]   N seeds (default 300) x every scenario; each (seed, scenario) is executed
                                     (a) in one process running 16 consecutive indices, (b) in 16 separate processes
                                     running one index each (stride 16), (c) in the release harness; per-run plan hashes
                                     and result digests must be identical in all three.
  ./check selftest specificity       every behaviour-preserving change under /verif/benign/*/patch.diff is applied to /repo and
                                     every quick check must stay silent (exit 0), then the tree is restored.
  ./check selftest sensitivity       every change under /verif/seeded/*/patch.diff is applied to /repo, the quick
                                     check of its property must exit 1 with a VIOLATION line, the patch is reverted
                                     (git checkout) and /repo must be clean again.
"""
import concurrent.futures as cf
import json
import os
import subprocess
import sys
import time

import driver


def scenarios(binary):
    out = subprocess.run([binary, "list"], stdout=subprocess.PIPE, text=True).stdout
    return [l.split()[0] for l in out.splitlines() if l.strip()]


def digests(binary, scenario, seed, start, count, stride, tier="quick"):
    p = subprocess.run([binary, "run", "--scenario", scenario, "--seed", str(seed), "--tier", tier, "--start", str(start),
                        "--count", str(count), "--stride", str(stride), "--digests"], stdout=subprocess.PIPE, stderr=subprocess.PIPE)
    d = {}
    for line in p.stdout.decode("utf-8", "replace").splitlines():
        if line.startswith("D "):
            _, idx, ph, dg = line.split()
            d[int(idx)] = (ph, dg)
    return p.returncode, d


def determinism(nseeds):
    bins = driver.build_many(["std-debug", "std-release"])
    scs = scenarios(bins["std-debug"])
    t0 = time.time()
    problems = []
    checked = 0

    def one(args):
        sc, seed = args
        K = 16
        if sc == "c18long":
            # seconds per run in a debug build (the scenario is registered for the release harness only): release twice
            K = 4
            rc_a, a = digests(bins["std-release"], sc, seed, 0, K, 1)
            b = {}
            for j in range(K):
                rc, d = digests(bins["std-release"], sc, seed, j, 1, K)
                b.update(d)
            c = dict(a)
        else:
            rc_a, a = digests(bins["std-debug"], sc, seed, 0, K, 1)
            b = {}
            for j in range(K):
                rc, d = digests(bins["std-debug"], sc, seed, j, 1, K)
                b.update(d)
            rc_c, c = digests(bins["std-release"], sc, seed, 0, K, 1)
        bad = []
        if len(a) != K or len(b) != K or len(c) != K:
            bad.append("%s seed %d: missing digests (%d/%d/%d of %d)" % (sc, seed, len(a), len(b), len(c), K))
        for i in a:
            if i in b and a[i] != b[i]:
                bad.append("%s seed %d index %d: one process %s vs separate processes %s" % (sc, seed, i, a[i], b[i]))
            if i in c and a[i] != c[i]:
                bad.append("%s seed %d index %d: debug %s vs release %s" % (sc, seed, i, a[i], c[i]))
        return K, bad

    work = [(sc, seed) for sc in scs for seed in range(1000, 1000 + (min(nseeds, 4) if sc == "c18long" else nseeds))]
    with cf.ThreadPoolExecutor(max_workers=driver.workers()) as ex:
        for k, bad in ex.map(one, work):
            checked += k
            problems.extend(bad)
    driver.log("[determinism] %d scenarios x %d seeds x 16 indices (c18long: 4 seeds x 4 indices) = %d runs, each executed 3 ways, in %.0fs: %d divergences" % (
        len(scs), nseeds, checked, time.time() - t0, len(problems)))
    for p in problems[:20]:
        driver.log("DIVERGENCE " + p)
    return 1 if problems else 0


def sensitivity(only=None):
    seeded = os.path.join(driver.VERIF, "seeded")
    rows = []
    rc_all = 0
    for name in sorted(os.listdir(seeded)):
        d = os.path.join(seeded, name)
        patch = os.path.join(d, "patch.diff")
        meta = os.path.join(d, "meta.json")
        if not (os.path.exists(patch) and os.path.exists(meta)):
            continue
        if only and not any(name.startswith(o) for o in only):
            continue
        meta_d = json.load(open(meta))
        prop = meta_d["property"]
        expected_miss = bool(meta_d.get("expected_miss"))
        if subprocess.run(["git", "-C", driver.REPO, "diff", "--quiet"]).returncode != 0:
            driver.log("HARNESS-ERROR /repo has uncommitted changes; refusing to apply patches")
            return 2
        t0 = time.time()
        ap = subprocess.run(["git", "-C", driver.REPO, "apply", patch])
        if ap.returncode != 0:
            rows.append((name, prop, "patch does not apply", 0))
            rc_all = 1
            continue
        try:
            p = subprocess.run([os.path.join(driver.VERIF, "check"), prop, "quick"], stdout=subprocess.PIPE, stderr=subprocess.STDOUT, text=True)
        finally:
            subprocess.run(["git", "-C", driver.REPO, "checkout", "--", "."])
        viol = [l for l in p.stdout.splitlines() if l.startswith("VIOLATION")]
        ok = p.returncode == 1 and viol
        if ok:
            verdict = "DETECTED (%d signature lines; first: %s)" % (len(viol), viol[0][:160])
        elif expected_miss:
            verdict = "EXPECTED-MISS rc=%d (documented in meta.json as outside what the check decides)" % p.returncode
        else:
            verdict = "MISSED rc=%d" % p.returncode
        rows.append((name, prop, verdict, time.time() - t0))
        if not ok and not expected_miss:
            rc_all = 1
        driver.log("[sensitivity] %-12s %s %s (%.0fs)" % (name, prop, rows[-1][2][:200], rows[-1][3]))
    # replay files produced while a patch was applied describe a tree that no longer exists
    for f in os.listdir(driver.REPLAYS):
        if f.endswith(".plan"):
            os.unlink(os.path.join(driver.REPLAYS, f))
    driver.log("[sensitivity] %d seeded changes, %d detected" % (len(rows), sum(1 for r in rows if r[2].startswith("DETECTED"))))
    driver.log("[sensitivity] re-running the checks on the restored tree is required before committing evidence")
    return rc_all


def specificity(only=None):
    """Behaviour-preserving changes under /verif/benign must not raise any alarm in any check."""
    bank = os.path.join(driver.VERIF, "benign")
    props = sorted(driver.PROPS)
    if os.environ.get("SPEC_PROPS"):
        # restrict to the checks whose machinery changed since the last full run
        props = [p for p in props if p in os.environ["SPEC_PROPS"].split(",")]
    bad = 0
    n = 0
    for name in sorted(os.listdir(bank)):
        patch = os.path.join(bank, name, "patch.diff")
        if not os.path.exists(patch):
            continue
        if only and not any(name.startswith(o) for o in only):
            continue
        if subprocess.run(["git", "-C", driver.REPO, "diff", "--quiet"]).returncode != 0:
            driver.log("HARNESS-ERROR /repo has uncommitted changes; refusing to apply patches")
            return 2
        if subprocess.run(["git", "-C", driver.REPO, "apply", patch]).returncode != 0:
            driver.log("[specificity] %s: patch does not apply" % name)
            bad += 1
            continue
        n += 1
        try:
            for prop in props:
                p = subprocess.run([os.path.join(driver.VERIF, "check"), prop, "quick"], stdout=subprocess.PIPE, stderr=subprocess.STDOUT, text=True)
                alarms = [l for l in p.stdout.splitlines() if l.startswith("VIOLATION") or l.startswith("HARNESS")]
                if p.returncode != 0 or alarms:
                    bad += 1
                    driver.log("[specificity] %s %s: ALARM rc=%d %s" % (name, prop, p.returncode, (alarms or [""])[0][:200]))
        finally:
            subprocess.run(["git", "-C", driver.REPO, "checkout", "--", "."])
        driver.log("[specificity] %s done" % name)
    for f in os.listdir(driver.REPLAYS):
        if f.endswith(".plan"):
            os.unlink(os.path.join(driver.REPLAYS, f))
    driver.log("[specificity] %d behaviour-preserving changes x %d checks, %d alarms" % (n, len(props), bad))
    return 1 if bad else 0


def main(argv):
    if not argv:
        print(__doc__)
        return 2
    if argv[0] == "specificity":
        return specificity(argv[1:] or None)
    if argv[0] == "determinism":
        return determinism(int(argv[1]) if len(argv) > 1 else 300)
    if argv[0] == "sensitivity":
        return sensitivity(argv[1:] or None)
    print(__doc__)
    return 2
