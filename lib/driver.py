"""Driver: build, fan out workers, supervise, minimise, write evidence (DESIGN.md section 2)."""
import concurrent.futures as cf
import hashlib
import json
import os
import re
import shutil
import subprocess
import sys
import time

VERIF = os.path.dirname(os.path.dirname(os.path.abspath(__file__)))
REPO = "/repo"
SIM = os.path.join(VERIF, "sim")
TARGET = os.path.join(VERIF, "target")
WORK = os.path.join(VERIF, "work")
REPLAYS = os.path.join(VERIF, "replays")
EVIDENCE = os.path.join(VERIF, "evidence")
DEFAULT_SEED = 20260927
RUSTFLAGS = "--cfg num_bigint_verif --check-cfg cfg(num_bigint_verif)"

CONFIGS = {
    # library built with: std + rand + serde + quickcheck + arbitrary
    "std-debug": dict(features=["std", "opt", "stdopt"], release=False),
    "std-release": dict(features=["std", "opt", "stdopt"], release=True),
    # no_std + rand + serde
    "nostd-debug": dict(features=["opt"], release=False),
    "nostd-release": dict(features=["opt"], release=True),
    # std only, no optional feature / no feature at all
    "stdbare-debug": dict(features=["std"], release=False),
    "bare-release": dict(features=[], release=True),
}


class HarnessError(Exception):
    pass


class BuildError(HarnessError):
    def __init__(self, cfg, output):
        super().__init__("build of harness configuration %s failed" % cfg)
        self.cfg = cfg
        self.output = output


def log(msg):
    print(msg, flush=True)


def workers():
    return max(1, int(os.environ.get("VERIF_WORKERS", "16")))


def scale():
    return float(os.environ.get("VERIF_SCALE", "1"))


def cargo_env():
    env = dict(os.environ)
    env["CARGO_NET_OFFLINE"] = "true"
    env["RUSTFLAGS"] = RUSTFLAGS
    env.pop("CARGO_TARGET_DIR", None)
    return env


def build(cfg):
    """Build the harness against /repo's current working tree. Returns the binary path."""
    c = CONFIGS[cfg]
    tdir = os.path.join(TARGET, cfg)
    cmd = ["cargo", "build", "--offline", "--quiet", "--manifest-path", os.path.join(SIM, "Cargo.toml"),
           "--target-dir", tdir, "--no-default-features"]
    if c["features"]:
        cmd += ["--features", " ".join(c["features"])]
    if c["release"]:
        cmd += ["--release"]
    t0 = time.time()
    p = subprocess.run(cmd, env=cargo_env(), stdout=subprocess.PIPE, stderr=subprocess.STDOUT, text=True)
    if p.returncode != 0:
        raise BuildError(cfg, p.stdout)
    binary = os.path.join(tdir, "release" if c["release"] else "debug", "nbsim")
    if not os.path.exists(binary):
        raise BuildError(cfg, "binary missing after build: " + binary)
    log("[build] %s ok in %.1fs" % (cfg, time.time() - t0))
    return binary


def build_many(cfgs):
    cfgs = sorted(set(cfgs))
    out = {}
    with cf.ThreadPoolExecutor(max_workers=len(cfgs) or 1) as ex:
        futs = {ex.submit(build, c): c for c in cfgs}
        errs = []
        for f in futs:
            try:
                out[futs[f]] = f.result()
            except BuildError as e:
                errs.append(e)
        if errs:
            raise errs[0]
    return out


# ---------------------------------------------------------------------------------------------
# running workers


class Job:
    def __init__(self, scenario, configs, quick, thorough, rule, note="", only=None, relabel=None):
        # only / relabel: keep only violations whose oracle matches the regex and report them under another
        # property (used by C14 to sweep other scenarios for panics, signals and hangs only)
        self.only = only
        self.relabel = relabel
        self.scenario = scenario
        self.configs = configs if isinstance(configs, list) else [configs]
        self.quick = quick
        self.thorough = thorough
        self.rule = rule
        self.note = note

    def count(self, tier):
        n = self.quick if tier == "quick" else self.thorough
        return max(workers(), int(n * scale()))


SIG_NAMES = {11: "SIGSEGV", 7: "SIGBUS", 8: "SIGFPE", 4: "SIGILL", 6: "SIGABRT", 14: "SIGALRM(hang)"}


def parse_worker_output(text):
    res = dict(summary=None, violations=[], digests={}, fatal=None, progress=None, tolerated=None)
    for line in text.splitlines():
        if line.startswith("S "):
            res["summary"] = json.loads(line[2:])
        elif line.startswith("V "):
            res["violations"].append(json.loads(line[2:]))
        elif line.startswith("D "):
            _, idx, ph, dg = line.split()
            res["digests"][int(idx)] = (ph, dg)
        elif line.startswith("P "):
            res["progress"] = int(line[2:])
        elif line.startswith("FATAL "):
            m = re.match(r"FATAL sig=(\d+) run=(\d+) step=(\d+)", line)
            if m:
                res["fatal"] = dict(sig=int(m.group(1)), run=int(m.group(2)), step=int(m.group(3)))
        elif line.startswith("TOLERATED "):
            # the watchdog fired inside a step over an unwound object (nothing is promised there): run abandoned
            m = re.match(r"TOLERATED run=(\d+) step=(\d+)", line)
            if m:
                res["tolerated"] = dict(run=int(m.group(1)), step=int(m.group(2)))
    return res


def run_worker(binary, scenario, seed, tier, start, count, stride, digests, cover_path, extra_env=None):
    """Run one worker over its slice of run indices; restarts after a fatal signal."""
    results = []
    remaining = count
    cur = start
    fatals = 0
    tolerated = 0
    while remaining > 0:
        cmd = [binary, "run", "--scenario", scenario, "--seed", str(seed), "--tier", tier,
               "--start", str(cur), "--count", str(remaining), "--stride", str(stride),
               "--cover-out", cover_path + ".%d" % len(results)]
        if digests:
            cmd.append("--digests")
        env = dict(os.environ)
        if extra_env:
            env.update(extra_env)
        p = subprocess.run(cmd, stdout=subprocess.PIPE, stderr=subprocess.PIPE, env=env)
        out = parse_worker_output(p.stdout.decode("utf-8", "replace"))
        out["returncode"] = p.returncode
        out["stderr"] = p.stderr.decode("utf-8", "replace")[-2000:]
        out["cover_path"] = cover_path + ".%d" % len(results)
        results.append(out)
        if out["summary"] is not None and p.returncode == 0:
            break
        if out["tolerated"] is not None and p.returncode == 76:
            tolerated += 1
            done = (out["tolerated"]["run"] - cur) // stride + 1
            cur += done * stride
            remaining -= done
            if tolerated >= 200:
                break
            continue
        if out["fatal"] is not None:
            fatals += 1
            done = (out["fatal"]["run"] - cur) // stride + 1
            cur += done * stride
            remaining -= done
            if fatals >= 2:
                break
            continue
        raise HarnessError("worker %s exited with %s without a summary:\n%s\n%s" % (
            " ".join(cmd), p.returncode, p.stdout.decode("utf-8", "replace")[-2000:], out["stderr"]))
    return results


def gen_plan(binary, scenario, seed, tier, index):
    p = subprocess.run([binary, "gen", "--scenario", scenario, "--seed", str(seed), "--tier", tier,
                        "--index", str(index)], stdout=subprocess.PIPE, stderr=subprocess.PIPE, text=True)
    if p.returncode != 0:
        raise HarnessError("gen failed: " + p.stderr)
    return p.stdout


class JobResult:
    def __init__(self, job, cfg):
        self.job = job
        self.cfg = cfg
        self.runs = 0
        self.steps = 0
        self.nontrivial_runs = 0
        self.wall = 0.0
        self.cpu_wall = 0.0
        self.faults = {}
        self.reach = {}
        self.probes = {}
        self.cover_count = 0
        self.samples = []
        self.violations = []   # dicts: property, oracle, api, detail, plan (text), index
        self.digests = {}
        self.property = None


def _acc(dst, src):
    for k, v in src.items():
        dst[k] = dst.get(k, 0) + v


def run_job_config(job, cfg, binary, seed, tier, want_digests):
    os.makedirs(WORK, exist_ok=True)
    W = workers()
    total = job.count(tier)
    per = (total + W - 1) // W
    jr = JobResult(job, cfg)
    t0 = time.time()
    tag = "%s-%s-%d" % (job.scenario, cfg, os.getpid())
    with cf.ThreadPoolExecutor(max_workers=W) as ex:
        futs = [ex.submit(run_worker, binary, job.scenario, seed, tier, j, per, W, want_digests,
                          os.path.join(WORK, "cover-%s-%d" % (tag, j))) for j in range(W)]
        all_results = [f.result() for f in futs]
    jr.wall = time.time() - t0
    cover_files = []
    for results in all_results:
        for out in results:
            s = out["summary"]
            if s is not None:
                jr.property = s["property"]
                jr.runs += s["runs"]
                jr.steps += s["steps"]
                jr.nontrivial_runs += s["nontrivial_runs"]
                jr.cpu_wall += s["wall_s"]
                _acc(jr.faults, s["faults"])
                _acc(jr.reach, s["reach"])
                _acc(jr.probes, s["probes"])
                if len(jr.samples) < 4:
                    jr.samples.extend(s["samples"][:1])
            if out.get("tolerated") is not None:
                jr.faults["unwound.run_abandoned_on_hang"] = jr.faults.get("unwound.run_abandoned_on_hang", 0) + 1
            if os.path.exists(out["cover_path"]):
                cover_files.append(out["cover_path"])
            for v in out["violations"]:
                d = dict(v["violation"])
                d["index"] = v["index"]
                d["plan"] = v.get("plan")
                d["cfg"] = cfg
                jr.violations.append(d)
            jr.digests.update(out["digests"])
            if out["fatal"] is not None:
                ft = out["fatal"]
                plan = gen_plan(binary, job.scenario, seed, tier, ft["run"])
                jr.violations.append(dict(
                    property=fatal_property(job.scenario, ft["sig"]),
                    oracle="signal-%d" % ft["sig"], api=job.scenario, step=ft["step"],
                    detail="worker died with %s at step %d" % (SIG_NAMES.get(ft["sig"], ft["sig"]), ft["step"]),
                    index=ft["run"], plan=plan, cfg=cfg))
    if cover_files:
        p = subprocess.run([binary, "merge-cover"] + cover_files, stdout=subprocess.PIPE, text=True)
        try:
            jr.cover_count = int(p.stdout.strip())
        except ValueError:
            jr.cover_count = 0
        for f in cover_files:
            try:
                os.unlink(f)
            except OSError:
                pass
    return jr


def fatal_property(scenario, sig):
    # a memory fault inside the allocator-guard scenario is a C15 observation; any other
    # process-level failure (SIGFPE, abort, hang, SIGSEGV elsewhere) is C14 "faults the process"
    if scenario.startswith("c15") and sig != 14:
        # SIGSEGV/SIGBUS on a guard page, SIGFPE from the hardware divide, SIGABRT from a corrupted heap
        return "C15"
    if scenario.startswith("c11"):
        return "C11"  # a root call that hangs, overflows the stack or aborts returns no root at all
    if scenario.startswith("c18") and sig == 14:
        return "C18"  # a sampler that never returns although the stream has healed
    return "C14"


# ---------------------------------------------------------------------------------------------
# replay, signatures, shrinking


def sig_of(v):
    return (v["property"], v["oracle"], v["api"])


def replay_text(binary, text, tag="cand"):
    os.makedirs(WORK, exist_ok=True)
    path = os.path.join(WORK, "replay-%s-%d.plan" % (tag, os.getpid()))
    with open(path, "w") as f:
        f.write(text)
    return replay_path(binary, path)


def replay_path(binary, path):
    """Returns (list of violation dicts, R record or None)."""
    env = dict(os.environ)
    env.setdefault("NBSIM_WATCHDOG_S", "6")
    try:
        p = subprocess.run([binary, "replay", path], stdout=subprocess.PIPE, stderr=subprocess.PIPE, timeout=60, env=env)
    except subprocess.TimeoutExpired:
        return [dict(property="C14", oracle="signal-14", api="?", step=0, detail="replay timed out")], None
    out = p.stdout.decode("utf-8", "replace")
    vs = []
    rec = None
    scen = None
    for line in open(path).read().splitlines():
        if line.startswith("scenario "):
            scen = line.split()[1]
    for line in out.splitlines():
        if line.startswith("V "):
            vs.append(json.loads(line[2:])["violation"])
        elif line.startswith("R "):
            rec = json.loads(line[2:])
        elif line.startswith("FATAL "):
            m = re.match(r"FATAL sig=(\d+) run=(\d+) step=(\d+)", line)
            if m:
                sig = int(m.group(1))
                vs.append(dict(property=fatal_property(scen or "", sig), oracle="signal-%d" % sig,
                               api=scen or "?", step=int(m.group(3)),
                               detail="process died with %s" % SIG_NAMES.get(sig, sig)))
    if p.returncode == 2:
        raise HarnessError("replay rejected %s: %s" % (path, p.stderr.decode("utf-8", "replace")))
    return vs, rec


def diverges(bin_a, bin_b, text):
    """Replay one plan in two harness builds; a description if the observable transcripts differ."""
    va, ra = replay_text(bin_a, text, "diffa")
    vb, rb = replay_text(bin_b, text, "diffb")
    da = ra["digest"] if ra else "dead:" + ",".join(x["oracle"] for x in va)
    db = rb["digest"] if rb else "dead:" + ",".join(x["oracle"] for x in vb)
    if da != db:
        return "transcript digests differ: %s vs %s" % (da, db)
    return None


def split_plan(text):
    head, cfgline, steps, tail = [], None, [], []
    for line in text.splitlines():
        if line.startswith("step "):
            steps.append(line)
        elif line == "cfg" or line.startswith("cfg "):
            cfgline = line
        elif line.startswith("expect ") or line.startswith("note "):
            tail.append(line)
        elif line.strip():
            head.append(line)
    return head, cfgline or "cfg", steps


def join_plan(head, cfgline, steps, extra=()):
    return "\n".join(list(head) + [cfgline] + list(steps) + list(extra)) + "\n"


def token_variants(tok):
    """Simpler alternatives for one k=v token."""
    if "=" not in tok:
        return
    k, v = tok.split("=", 1)
    if v.startswith("["):
        body = v[1:-1]
        items = body.split(",") if body else []
        n = len(items)
        if n == 0:
            return
        yield k + "=[]"
        if n > 1:
            yield k + "=[" + ",".join(items[: n // 2]) + "]"
            yield k + "=[" + ",".join(items[n // 2:]) + "]"
            yield k + "=[" + ",".join(items[:-1]) + "]"
            yield k + "=[" + ",".join(items[1:]) + "]"
        if n <= 12:
            for i in range(n):
                if items[i] not in ("0", "1"):
                    for rep in ("0", "1"):
                        yield k + "=[" + ",".join(items[:i] + [rep] + items[i + 1:]) + "]"
    elif v.startswith("'"):
        return
    else:
        try:
            x = int(v)
        except ValueError:
            return
        for c in (0, 1, x // 2, x - 1 if x > 0 else x + 1):
            if c != x and abs(c) < abs(x):
                yield "%s=%d" % (k, c)


def shrink(accepts, text, max_execs=400, max_seconds=90):
    """ddmin over steps, then argument shrinking; `accepts(text) -> bool` keeps the violation class."""
    t0 = time.time()
    execs = [0]

    def ok(t):
        if execs[0] >= max_execs or time.time() - t0 > max_seconds:
            return False
        execs[0] += 1
        return accepts(t)

    head, cfgline, steps = split_plan(text)
    # 1. ddmin over steps
    n = 2
    while len(steps) >= 1 and n <= max(2, len(steps)) :
        chunk = max(1, len(steps) // n)
        removed = False
        i = 0
        while i < len(steps):
            cand = steps[:i] + steps[i + chunk:]
            if ok(join_plan(head, cfgline, cand)):
                steps = cand
                removed = True
            else:
                i += chunk
        if not removed:
            if chunk == 1:
                break
            n = min(len(steps), n * 2) if len(steps) else 2
        if execs[0] >= max_execs or time.time() - t0 > max_seconds:
            break
    # 2. argument shrinking (cfg line and every step), to a fixed point
    changed = True
    while changed and execs[0] < max_execs and time.time() - t0 <= max_seconds:
        changed = False
        lines = [cfgline] + steps
        for li in range(len(lines)):
            toks = lines[li].split(" ")
            for ti in range(len(toks)):
                for var in token_variants(toks[ti]):
                    cand_toks = toks[:ti] + [var] + toks[ti + 1:]
                    cand_lines = lines[:li] + [" ".join(cand_toks)] + lines[li + 1:]
                    if ok(join_plan(head, cand_lines[0], cand_lines[1:])):
                        toks = cand_toks
                        lines = cand_lines
                        changed = True
                        break
        cfgline, steps = lines[0], lines[1:]
    return join_plan(head, cfgline, steps), execs[0]


def load_known():
    path = os.path.join(VERIF, "known_findings.json")
    if not os.path.exists(path):
        return []
    return json.load(open(path)).get("findings", [])


def match_known(v):
    for k in load_known():
        if k.get("status") != "known":
            continue
        if k["property"] != v["property"]:
            continue
        if k.get("oracle") and k["oracle"] != v["oracle"]:
            continue
        if k.get("api_regex") and not re.search(k["api_regex"], v["api"]):
            continue
        if k.get("detail_regex") and not re.search(k["detail_regex"], v.get("detail", "")):
            continue
        return k
    return None


def report_violations(prop, viols, binaries, primary_cfg):
    """Group by signature, minimise, write replay files, print lines. Returns #unlisted violations."""
    os.makedirs(REPLAYS, exist_ok=True)
    groups = {}
    for v in viols:
        groups.setdefault(sig_of(v), []).append(v)
    unlisted = 0
    ordered = sorted(groups.items(), key=lambda kv: (-len(kv[1]), kv[0]))
    if len(ordered) > 8:
        log("[note] %d distinct violation signatures; reporting the 8 most frequent, the others are: %s" % (
            len(ordered), ", ".join("%s/%s/%s" % sg for sg, _ in ordered[8:40])))
        unlisted += len([1 for sg, vs in ordered[8:] if match_known(vs[0]) is None])
        ordered = ordered[:8]
    for n, (sg, vs) in enumerate(ordered):
        v = min(vs, key=lambda x: len(x.get("plan") or ""))
        k = match_known(v)
        if k is not None:
            log("KNOWN-FINDING: property=%s %s [oracle=%s api=%s; %d run(s) this time]" % (
                v["property"], k.get("what", ""), v["oracle"], v["api"], len(vs)))
            continue
        unlisted += 1
        text = v.get("plan")
        if text is None:
            log("VIOLATION property=%s replay=none oracle=%s api=%s detail=%s" % (
                v["property"], v["oracle"], v["api"], v.get("detail")))
            continue
        binary = binaries[v.get("cfg", primary_cfg)]
        minimised, final_detail = text, v.get("detail", "")
        if n < 4 and v.get("shrinkable", True):
            if v.get("diff_cfgs"):
                ba, bb = binaries[v["diff_cfgs"][0]], binaries[v["diff_cfgs"][1]]

                def accepts(t, ba=ba, bb=bb):
                    return diverges(ba, bb, t) is not None
            else:
                def accepts(t, sg=sg, binary=binary):
                    got, _ = replay_text(binary, t)
                    # (oracle, api) decide; the property label may have been reassigned by the job
                    return any(sig_of(g)[1:] == sg[1:] for g in got)
            try:
                if accepts(text):
                    minimised, execs = shrink(accepts, text)
                    if v.get("diff_cfgs"):
                        d = diverges(binaries[v["diff_cfgs"][0]], binaries[v["diff_cfgs"][1]], minimised)
                        if d is None:
                            minimised = text
                        else:
                            final_detail = d
                    else:
                        got, _ = replay_text(binary, minimised, "final")
                        same = [g for g in got if sig_of(g)[1:] == sg[1:]]
                        if same:
                            final_detail = same[0].get("detail", final_detail)
                        else:
                            minimised = text
                else:
                    log("[warn] stored plan did not reproduce %s in a fresh process" % (sg,))
            except HarnessError as e:
                log("[warn] minimisation failed: %s" % e)
                minimised = text
        h = hashlib.sha1((minimised + repr(sg) + v.get("cfg", primary_cfg)).encode()).hexdigest()[:12]
        path = os.path.join(REPLAYS, "%s-%s.plan" % (v["property"], h))
        with open(path, "w") as f:
            f.write(minimised)
            f.write("expect property=%s oracle=%s api=%s cfg=%s\n" % (v["property"], v["oracle"], v["api"], v.get("cfg", primary_cfg)))
            f.write("note %s\n" % final_detail.replace("\n", " ")[:600])
        log("VIOLATION property=%s replay=%s oracle=%s api=%s cfg=%s runs=%d detail=%s" % (
            v["property"], path, v["oracle"], v["api"], v.get("cfg", primary_cfg), len(vs), final_detail[:300]))
    return unlisted


# ---------------------------------------------------------------------------------------------
# evidence


def write_evidence(prop, tier, seed, level, coverage, assumptions, wall, nviol):
    os.makedirs(EVIDENCE, exist_ok=True)
    ev = dict(property_id=prop, tier=tier, seed=seed, level=level, coverage=coverage,
              assumptions=assumptions, wall_s=round(wall, 3), violations=nviol)
    path = os.path.join(EVIDENCE, prop + ".json")
    tmp = path + ".tmp"
    with open(tmp, "w") as f:
        json.dump(ev, f, indent=1, sort_keys=True)
        f.write("\n")
    os.replace(tmp, path)
    return path


def coverage_from_jobs(results, extra=None, count_steps=False):
    evaluations = sum((r.steps if count_steps else r.runs) for r in results)
    distinct = sum(r.cover_count for r in results)
    steps = sum(r.steps for r in results)
    wall = sum(r.wall for r in results) or 1e-9
    faults, reach, probes = {}, {}, {}
    for r in results:
        _acc(faults, r.faults)
        _acc(reach, r.reach)
        _acc(probes, r.probes)
    samples = []
    for r in results:
        for s in r.samples[:2]:
            samples.append(dict(scenario=r.job.scenario, config=r.cfg, plan=s.splitlines()))
    rule = " || ".join("%s: %s" % (j, t) for j, t in dict((r.job.scenario, r.job.rule) for r in results).items())
    cov = dict(
        evaluations=evaluations,
        distinct_nontrivial=distinct,
        rule=rule,
        samples=samples or ["(no non-trivial sample recorded)"],
        simulated_steps=steps,
        simulated_time_note="the system has no timers; logical steps are the only clock",
        runs_per_hour=int(evaluations / wall * 3600),
        seeds_per_hour=int(evaluations / wall * 3600),
        nontrivial_runs=sum(r.nontrivial_runs for r in results),
        faults_fired=faults,
        reach_probes=reach,
        library_probes=probes,
        jobs=[dict(scenario=r.job.scenario, config=r.cfg, runs=r.runs, steps=r.steps, distinct=r.cover_count,
                   wall_s=round(r.wall, 2), note=r.job.note) for r in results],
        zero_probes=sorted([k for k, v in reach.items() if v == 0]),
    )
    if extra:
        cov.update(extra)
    return cov


# ---------------------------------------------------------------------------------------------
# property table

COMPONENTS_REAL = [
    "num-bigint (all of /repo/src, rebuilt from the working tree with --cfg num_bigint_verif)",
    "rand 0.8.8 Rng::fill/gen", "serde 1.0.229 trait machinery and primitive/tuple impls",
    "arbitrary 1.4.2 Unstructured", "quickcheck 1.1.0 Gen", "num-traits 0.2.19", "num-integer 0.1.47",
]
COMPONENTS_SIM = [
    "RngCore (SimRng)", "serde Serializer/Deserializer endpoints and token transport", "global allocator (SimAlloc)",
    "Unstructured byte source", "quickcheck Gen seed", "iterator consumers", "Newton starting guess (hook)",
    "build configuration",
]

PROPS = {
    "C09": dict(
        level="exploration",
        jobs=[
            Job("c09iter", "std-debug", 400_000, 8_000_000,
                "plans = (iterator kind, value shape, sequence of next/next_back/nth/nth_back/len/size_hint/take/terminal ops) "
                "drawn from the run PRNG; non-trivial = both ends consumed, or a terminal op after partial consumption; "
                "distinct = distinct (kind, native length, top-half-zero, op sequence)"),
            Job("c09iter", "std-release", 200_000, 3_000_000, "same plans in the release harness (len() underflow wraps instead of panicking)"),
            Job("c09bytes", "std-debug", 400_000, 30_000_000,
                "plans = 1..6 exchanges: export of a value built by one of 8 routes checked against the byte/word model (minimal base-256, "
                "shortest two's complement incl. the -2^(8k-1) exception, u32/u64 digits, iterators); library export -> transport padding "
                "(zero bytes, sign-extension bytes, zero words) -> library import; arbitrary delivered byte strings and u32 word lists "
                "(all-zero, odd counts, 0x00../0xff.. padding, top byte 0x80) imported by every constructor incl. assign_from_slice into a "
                "stale live buffer; distinct = distinct (exchange kind, length class, padding/top-byte class, sign, route)"),
        ],
        assumptions=[
            "VecDeque model of an exact-size double-ended iterator",
            "iter_u64_digits() (a plain slice iterator on 64-bit targets) as observation channel",
            "only x86_64 / 64-bit digits are compiled",
        ],
    ),
    "C04": dict(
        level="exploration",
        evaluations="steps",
        jobs=[
            Job("c04", "std-debug", 250_000, 6_000_000,
                "plans = register-file histories (6 BigUint + 6 BigInt registers, snapshots) over the public constructing / mutating / "
                "by-value operator vocabulary with round-trip detours, redundant constructor inputs, injected documented failures (swarm), "
                "occasionally under the garbage-filling always-moving allocator; non-trivial = some step produced a value equal to one "
                "reached by a different history; distinct = distinct (operation form, previous operation on the same register, length "
                "class, capacity/length class or sign)"),
            Job("c04", "std-release", 100_000, 2_000_000, "same plans in the release harness (no debug assertions in eq/cmp/hash)"),
            Job("c17", "std-debug", 150_000, 3_000_000,
                "the serde exchange plans (peer faults incl. a decode that fails part-way into an existing object), swept only for objects "
                "that arrive, or are left behind by a failed deserialize_in_place, in a form that is not the canonical one of their value",
                only=r"^(canonical|inplace-after-error|denotation)$", relabel="C04"),
        ],
        assumptions=[
            "denote(): iter_u64_digits() + sign() as observation channel, trailing zero digits kept visible",
            "RefNat/RefInt order as numerical order",
            "the &mut receiver of a panicked documented-failure operation is re-initialised (Rust promises nothing about it)",
            "the oracle never compares against an arithmetic result: wrong arithmetic with intact canonicalisation raises no C04 alarm",
        ],
    ),
    "C11": dict(
        level="exploration",
        jobs=[
            Job("c11", ["std-debug", "nostd-debug", "std-release", "nostd-release"], 120_000, 6_000_000,
                "plans = 1..4 root calls: x from a regime swarm (below 2^64, up to 2^1024, beyond 2^1024 (scaled recursive guess), perfect "
                "powers r^n and r^n+-1, bit length near n, all-ones; up to 6000 bits), degree n from {1,2,3,4,5,7,8,16,31,32,33,64,100,1000,"
                "bits-1,bits,bits+1,u32::MAX,0}, BigUint/BigInt and sign, and a guess fault injected through the hook: none, no_float (exactly "
                "the no_std guess), off(+-1,+-2), ulp (relative 2^-50..2^-52), rel (2^-20..2^-52); oracle r^n <= x < (r+1)^n by RefNat, identical "
                "result with and without the fault, documented panics; the same seeds run in four library builds and the per-run result digests "
                "must be identical; non-trivial = a guess fault fired or >= 2 fix-point iterations; distinct = distinct (API, regime, degree "
                "class, fault kind, fault direction, sign)"),
        ],
        assumptions=[
            "RefNat schoolbook power comparison as the floor-root oracle (never the library's own pow)",
            "guess perturbations are limited to what a platform or configuration could legitimately supply (no arbitrary starts)",
            "the hook shadows the guess after the cfg(feature=std) / cfg(not(feature=std)) computation; default mode is the identity",
        ],
    ),
    "C14": dict(
        level="fault_enumeration",
        jobs=[
            Job("c14f", "std-debug", 60_000, 1_500_000,
                "fault sites = complete list of (operation form, documented-failure class) pairs plus sites that must not fail; run i "
                "executes site i mod N at the end of a fresh random history, then continues; distinct = distinct sites executed"),
            Job("c14f", "std-release", 60_000, 1_500_000, "same sites in the release harness (violated div precondition = SIGFPE, silent wrap)"),
            Job("c14h", "std-debug", 100_000, 3_000_000,
                "complement: histories of * / % pow modpow roots gcd to_str ... with operand lengths on both sides of every internal "
                "threshold (5-digit block, 32/33, 64, 256/257 digits, 2x imbalance) and all-ones / sparse / power-of-two digit patterns; "
                "every step not classified as a documented failure must return; distinct = distinct (operation form, scalar type)"),
            Job("c14h", "std-release", 60_000, 1_500_000, "same plans, release harness"),
            Job("c09iter", "std-debug", 150_000, 2_000_000,
                "the two-ended digit-iterator plans, swept for panics / overflow / signals only (value oracles belong to C09)",
                only=r"panic|signal", relabel="C14"),
            Job("c09bytes", "std-debug", 100_000, 2_000_000,
                "the byte/word import-export plans, swept for panics / signals only", only=r"panic|signal", relabel="C14"),
            Job("c11", "std-debug", 60_000, 1_000_000,
                "the root plans (incl. guess faults), swept for panics outside the documented set, signals and hangs only",
                only=r"unexpected-panic|signal", relabel="C14"),
        ],
        assumptions=[
            "expect(): classification of documented failures from reference denotations before the step runs",
            "the fault-site list is enumerated completely each run (exhaustive over the list; operands and histories are sampled)",
            "shifts / powers whose result would exceed ~45 kbit are skipped (out of scope: must exhaust memory)",
            "supervisor: catch_unwind for panics, signal handler for SIGSEGV/SIGFPE/SIGILL/SIGABRT, alarm() watchdog for hangs",
        ],
        exhaustive_note="the site list (operation form x failure class) is enumerated completely; operands/histories are sampled",
    ),
    "C15": dict(
        level="exploration",
        jobs=[
            Job("c15", "std-release", 120_000, 3_000_000,
                "every plan runs twice: under the plain allocator and under SimAlloc (each block alone on its pages, ending at or starting "
                "behind a PROT_NONE page, garbage-filled, realloc always moves, freed blocks inaccessible, borrowed operands optionally "
                "mprotect'ed read-only); oracles: no signal, produced text valid ASCII digits of the radix, registers a step only borrows "
                "unchanged, identical transcripts under both allocators; distinct = distinct (operation form, placement policy, protect)"),
            Job("c15", "std-debug", 60_000, 1_500_000, "same plans, debug harness"),
            Job("c15rand", "std-release", 40_000, 1_000_000,
                "gen_biguint(n) for every n in 0..=200 and multiples of 32/64 +-1 into guarded memory from a scripted RNG"),
            Job("c15c18", "std-release", 24_000, 600_000,
                "the scripted-RNG histories of C18 (rejection retries, zero draws that are retried, adversarial candidates, sizes up to "
                "70 kbit) executed under the plain and the guarded allocator"),
            Job("c15c18", "std-debug", 8_000, 200_000, "same plans, debug harness"),
        ],
        assumptions=[
            "a page fault is the observation: an out-of-bounds access that stays inside the same page as the block's own bytes is invisible "
            "(blocks end exactly at the guard page for sizes that are multiples of the alignment, i.e. every Vec<u64>/Vec<u8>)",
            "Linux mmap/mprotect semantics",
            "inline assembly operand declarations are trusted (in(reg) size is modified inside the asm block: reading note in DESIGN.md)",
            "fault model 'unwound operation, object kept': an object left by a documented-failure panic, and everything computed from it, is "
            "held to memory safety only (no value, failure-class or termination oracle); iterate-until-zero operations are not run on such "
            "operands and a watchdog hit inside such a step abandons the run without a verdict (counted as unwound.run_abandoned_on_hang)",
        ],
    ),
    "C16": dict(
        level="exploration",
        custom="check_c16",
        jobs=[
            Job("c16", ["std-debug", "std-release", "nostd-debug", "nostd-release", "stdbare-debug", "bare-release"], 80_000, 2_000_000,
                "plans = register-machine histories weighted towards feature-conditional code (to_str_radix / to_radix / parsing over all "
                "radices and sizes on both sides of the 64-digit threshold, sqrt/cbrt/nth_root, float conversions, formatting with flags) plus a "
                "cross-section of every other family; the per-run transcript digest (every result digit, text, float bit pattern, None/panic "
                "flag) must be identical in all six harness builds (std / no_std, with and without the optional features, debug / release); distinct = distinct (operation form, scalar type, radix)"),
            Job("c09iter", ["std-debug", "std-release", "nostd-debug", "nostd-release", "stdbare-debug", "bare-release"], 60_000, 1_000_000,
                "the two-ended iterator plans of C09 replayed in all six builds (transcripts must agree)"),
            Job("c09bytes", ["std-debug", "std-release", "nostd-debug", "nostd-release", "stdbare-debug", "bare-release"], 60_000, 1_000_000,
                "the byte/word transport plans of C09 replayed in all six builds"),
            Job("c17", ["std-debug", "std-release", "nostd-debug", "nostd-release"], 60_000, 1_000_000,
                "the serde plans of C17 replayed in the four builds that have the serde feature"),
            Job("c18", ["std-debug", "std-release", "nostd-debug", "nostd-release"], 60_000, 1_000_000,
                "the RNG plans of C18 replayed in the four builds that have the rand feature"),
        ],
        assumptions=[
            "cargo check of the library alone (guard off) decides 'compiles'; only target x86_64-unknown-linux-gnu is installed",
            "transcripts exclude quickcheck/arbitrary arrivals (those features need std)",
            "debug harness = opt-level 1 with debug assertions and overflow checks; release = opt-level 3 without",
        ],
    ),
    "C17": dict(
        level="exploration",
        jobs=[
            Job("c17", "std-debug", 600_000, 40_000_000,
                "plans = 1..6 serde exchanges (fault-free round trips of values built by 8 different routes; serializer failing at token k; "
                "arbitrary delivered u32/u64 token lists with padding, truncation, duplication, wide elements, missing End, lying size_hint, "
                "deserializer failing at read k; (sign, digits) pairs with invalid / inconsistent signs; several values on one tape); "
                "distinct = distinct (exchange kind, length class, parity/top-half-zero, fault kind, hint kind, route)"),
            Job("c17", "std-release", 200_000, 20_000_000, "same plans in the release harness (no debug assertions)"),
            Job("c17", "nostd-debug", 100_000, 4_000_000, "same plans against the no_std + serde build of the library"),
            Job("c17h", ["std-debug", "std-release"], 60_000, 1_500_000,
                "value histories instead of peer histories: the register-machine plans of C04 (constructors, every operator form, "
                "in-place mutation, arrivals, injected documented failures); after every step each object the step wrote is serialized "
                "with the token recorder, compared with the portable form of the integer it denotes (sign token, minimal u32 digits, "
                "exact length) and read back; distinct = distinct operation forms whose result was exchanged"),
        ],
        assumptions=[
            "token-level reference model of the documented format (Seq(len) U32* End / Tuple(2) I8 Seq.. End)",
            "TokSerializer/TokDeserializer are faithful serde endpoints (self-describing, End-delimited sequences)",
            "declared sequence length None would be tolerated; Some(n) must equal the number of elements",
            "only x86_64 / 64-bit digits are compiled",
        ],
    ),
    "C18": dict(
        level="exploration",
        jobs=[
            Job("c18", "std-debug", 500_000, 30_000_000,
                "plans = one scripted RNG byte stream (segments: random, zeros, ones, candidates equal to / above / just below the bound, "
                "junk in shifted-out bits; always healing to zeros) + 1..10 sampling calls sharing it (gen_biguint/gen_bigint/RandomBits/"
                "gen_biguint_below/ranges/Uniform/sample_single/gen_range, tiny-bound enumeration, try_fill_bytes error at call k); "
                "non-trivial = a rejection retry, a special-case branch (lbound=0/ubound=0), a documented panic, an RNG error or an enumeration; "
                "distinct = distinct (API, bit-size class, bound shape class, inclusive?, sign classes, retries)"),
            Job("c18", "std-release", 200_000, 15_000_000, "same plans in the release harness"),
            Job("c18", "nostd-debug", 100_000, 4_000_000, "same plans against the no_std + rand build of the library"),
            Job("c18long", ["std-release", "nostd-release"], 32, 256,
                "one bounded draw (gen_biguint_below / ranges / Uniform back-end / sample_single) behind a stuck-at-ones fault of 2^24 .. "
                "2^24 + 2^23 rejected candidates (64 .. 200 MiB of virtual stream), then the scripted candidates: the result must still be "
                "the first candidate below the bound; release harness only (seconds per call in a debug build)"),
        ],
        assumptions=[
            "rng_model: gen_biguint(n) = first ceil(n/32) little-endian words of the stream, top word shifted right by 32 - n%32",
            "bounded sampling = low + first candidate of bits(width) bits below the width (property text)",
            "SimRng is a byte-stream RngCore (next_u32/next_u64/fill_bytes all consume the same stream)",
            "rand 0.8.8 Rng::fill / gen::<bool> as shipped",
        ],
    ),
}


# ---------------------------------------------------------------------------------------------
# C16: build matrix + transcripts

STD_FEATURES = ["arbitrary", "quickcheck", "rand", "serde"]
NO_STD_FEATURES = ["serde", "rand"]


def feature_matrix(tier):
    import itertools
    cfgs = []
    for n in range(len(STD_FEATURES) + 1):
        for sub in itertools.combinations(STD_FEATURES, n):
            cfgs.append((["std"] + list(sub), "dev"))
    for n in range(len(NO_STD_FEATURES) + 1):
        for sub in itertools.combinations(NO_STD_FEATURES, n):
            cfgs.append((list(sub), "dev"))
    # every subset in both profiles (cfg(debug_assertions)-dependent items can break one profile only)
    rel = [(f, "release") for f, _ in cfgs]
    # ci/test_full.sh also builds and runs the tests of every subset: compile the integration tests and
    # compile + run the documentation examples of each subset
    tests = [(f, "tests") for f, _ in cfgs]
    docs = [(f, "doc") for f, _ in cfgs]
    return cfgs + rel + tests + docs


def cargo_check(features, profile, slot):
    """profile: dev | release (cargo check --lib), tests (cargo check --tests, dev), doc (cargo test --doc, dev)."""
    tdir = os.path.join(TARGET, "matrix-%d" % slot)
    if profile == "doc":
        cmd = ["cargo", "test", "--offline", "--quiet", "--doc"]
    elif profile == "tests":
        cmd = ["cargo", "check", "--offline", "--quiet", "--tests"]
    else:
        cmd = ["cargo", "check", "--offline", "--quiet", "--lib"]
    cmd += ["--manifest-path", os.path.join(REPO, "Cargo.toml"), "--target-dir", tdir, "--no-default-features"]
    if features:
        cmd += ["--features", " ".join(features)]
    if profile == "release":
        cmd += ["--release"]
    env = dict(os.environ)
    env["CARGO_NET_OFFLINE"] = "true"
    env.pop("RUSTFLAGS", None)
    p = subprocess.run(cmd, env=env, stdout=subprocess.PIPE, stderr=subprocess.STDOUT, text=True)
    return p.returncode, p.stdout


def run_matrix(tier):
    cfgs = feature_matrix(tier)
    slots = 6
    results = [None] * len(cfgs)

    def work(slot):
        for i in range(slot, len(cfgs), slots):
            results[i] = cargo_check(cfgs[i][0], cfgs[i][1], slot)

    with cf.ThreadPoolExecutor(max_workers=slots) as ex:
        list(ex.map(work, range(slots)))
    return cfgs, results


def build_replay_text(features, profile, output):
    errs = [l for l in output.splitlines() if l.startswith("error")][:6]
    return "nbsim-build 1\nfeatures %s\nprofile %s\n%s\n" % (
        " ".join(features) if features else "(none)", profile, "\n".join("note " + e for e in errs))


def check_c16(prop, tier, seed):
    spec = PROPS[prop]
    t0 = time.time()
    os.makedirs(REPLAYS, exist_ok=True)
    viols_lines = 0
    cfgs, results = run_matrix(tier)
    failed = []
    for (features, profile), (rc, out) in zip(cfgs, results):
        if rc != 0:
            failed.append((features, profile, out))
    log("[matrix] %d configurations checked in %.1fs, %d fail to compile" % (len(cfgs), time.time() - t0, len(failed)))
    for features, profile, out in failed[:6]:
        text = build_replay_text(features, profile, out)
        h = hashlib.sha1(text.encode()).hexdigest()[:12]
        path = os.path.join(REPLAYS, "C16-build-%s.plan" % h)
        with open(path, "w") as f:
            f.write(text)
        first = next((l for l in out.splitlines() if l.startswith("error") or "FAILED" in l), "compile error")
        v = dict(property="C16", oracle="does-not-compile", api="features=[%s] profile=%s" % (" ".join(features), profile), detail=first)
        k = match_known(v)
        if k is not None:
            log("KNOWN-FINDING: property=C16 %s" % k.get("what", ""))
        else:
            viols_lines += 1
            log("VIOLATION property=C16 replay=%s oracle=does-not-compile features=[%s] profile=%s detail=%s" % (
                path, " ".join(features), profile, first[:300]))
    # transcripts
    results_jobs, viols = [], []
    binaries = {}
    try:
        binaries = build_many([c for j in spec["jobs"] for c in j.configs])
    except BuildError as e:
        if failed:
            log("[note] harness configuration %s not built because the library does not compile in it" % e.cfg)
        else:
            raise
    if binaries and len(binaries) == len(set(c for j in spec["jobs"] for c in j.configs)):
        for job in spec["jobs"]:
            per_cfg = []
            for cfg in job.configs:
                jr = run_job_config(job, cfg, binaries[cfg], seed, tier, True)
                log("[run] %s/%s: %d runs, %d steps, %.1fs, %d violating" % (job.scenario, cfg, jr.runs, jr.steps, jr.wall, len(jr.violations)))
                per_cfg.append(jr)
                results_jobs.append(jr)
                viols.extend(jr.violations)
            base = per_cfg[0]
            for other in per_cfg[1:]:
                bad = sorted(i for i in base.digests if i in other.digests and base.digests[i] != other.digests[i])
                for i in bad[:2]:
                    plan = gen_plan(binaries[base.cfg], job.scenario, seed, tier, i)
                    viols.append(dict(property="C16", oracle="config-divergence",
                                      api="%s[%s vs %s]" % (job.scenario, base.cfg, other.cfg), step=0,
                                      detail="run %d: digest %s vs %s" % (i, base.digests[i][1], other.digests[i][1]),
                                      index=i, plan=plan, cfg=base.cfg, diff_cfgs=(base.cfg, other.cfg)))
                if bad:
                    log("[diff] %s: %d of %d runs diverge between %s and %s" % (job.scenario, len(bad), len(base.digests), base.cfg, other.cfg))
    unlisted = report_violations(prop, viols, binaries, "std-debug") if viols else 0
    samples = [dict(kind="build", features=f, profile=p) for f, p in cfgs[:3]]
    if results_jobs:
        cov = coverage_from_jobs(results_jobs, dict(components_real=COMPONENTS_REAL, components_simulated=COMPONENTS_SIM))
        cov["samples"] = samples + cov["samples"][:3]
    else:
        cov = dict(evaluations=len(cfgs), distinct_nontrivial=len(cfgs), rule="", samples=samples)
    cov["rule"] = ("build matrix: every supported feature subset x profile compiled with cargo check; transcripts: " + cov.get("rule", ""))
    cov["build_configurations_checked"] = len(cfgs)
    cov["build_configurations_failed"] = len(failed)
    cov["build_matrix"] = ["%s/%s" % (" ".join(f) or "(none)", p) for f, p in cfgs]
    cov["transcript_configurations"] = sorted(binaries)
    cov["evaluations"] = cov.get("evaluations", 0) + len(cfgs)
    cov["distinct_nontrivial"] = cov.get("distinct_nontrivial", 0) + len(cfgs)
    path = write_evidence(prop, tier, seed, spec["level"], cov, spec["assumptions"], time.time() - t0, len(viols) + len(failed))
    log("[done] %s tier=%s seed=%d evaluations=%d distinct_nontrivial=%d wall=%.1fs evidence=%s" % (
        prop, tier, seed, cov["evaluations"], cov["distinct_nontrivial"], time.time() - t0, path))
    return 1 if (unlisted or viols_lines) else 0


def check_property(prop, tier, seed):
    if prop not in PROPS:
        raise HarnessError("property %s is not claimed (see MANIFEST.json not_applicable)" % prop)
    spec = PROPS[prop]
    t0 = time.time()
    if "custom" in spec:
        return globals()[spec["custom"]](prop, tier, seed)
    cfgs = [c for j in spec["jobs"] for c in j.configs]
    binaries = build_many(cfgs)
    results, viols = [], []
    for job in spec["jobs"]:
        multi = len(job.configs) > 1
        per_cfg = []
        for cfg in job.configs:
            jr = run_job_config(job, cfg, binaries[cfg], seed, tier, multi)
            log("[run] %s/%s: %d runs, %d steps, %d distinct, %.1fs, %d violating" % (
                job.scenario, cfg, jr.runs, jr.steps, jr.cover_count, jr.wall, len(jr.violations)))
            per_cfg.append(jr)
            results.append(jr)
            for v in jr.violations:
                if job.only and not re.search(job.only, v["oracle"]):
                    continue
                if job.relabel:
                    v = dict(v, property=job.relabel)
                viols.append(v)
        if multi:
            base = per_cfg[0]
            for other in per_cfg[1:]:
                bad = [i for i in base.digests if i in other.digests and base.digests[i] != other.digests[i]]
                bad.sort()
                for i in bad[:3]:
                    plan = gen_plan(binaries[base.cfg], job.scenario, seed, tier, i)
                    viols.append(dict(property=spec.get("diff_property", prop), oracle="config-divergence",
                                      api="%s[%s vs %s]" % (job.scenario, base.cfg, other.cfg), step=0,
                                      detail="run %d: digest %s vs %s" % (i, base.digests[i][1], other.digests[i][1]),
                                      index=i, plan=plan, cfg=base.cfg, diff_cfgs=(base.cfg, other.cfg)))
                if bad:
                    log("[diff] %s: %d runs diverge between %s and %s" % (job.scenario, len(bad), base.cfg, other.cfg))
    unlisted = report_violations(prop, viols, binaries, spec["jobs"][0].configs[0])
    cov = coverage_from_jobs(results, dict(components_real=COMPONENTS_REAL, components_simulated=COMPONENTS_SIM),
                             count_steps=spec.get("evaluations") == "steps")
    cov["evaluations_unit"] = "oracle evaluations (executed steps)" if spec.get("evaluations") == "steps" else "simulated runs"
    cov["simulated_runs"] = sum(r.runs for r in results)
    if spec.get("exhaustive_note"):
        cov["exhaustive_note"] = spec["exhaustive_note"]
    path = write_evidence(prop, tier, seed, spec["level"], cov, spec["assumptions"], time.time() - t0, len(viols))
    for z in cov["zero_probes"]:
        log("[warn] reach probe %s stayed at zero" % z)
    log("[done] %s tier=%s seed=%d evaluations=%d distinct_nontrivial=%d wall=%.1fs evidence=%s" % (
        prop, tier, seed, cov["evaluations"], cov["distinct_nontrivial"], time.time() - t0, path))
    return 1 if unlisted else 0


def cmd_replay(path):
    text = open(path).read()
    if text.startswith("nbsim-build"):
        feats = re.search(r"^features (.*)$", text, re.M).group(1)
        prof = re.search(r"^profile (.*)$", text, re.M).group(1)
        features = [] if feats == "(none)" else feats.split()
        rc, out = cargo_check(features, prof, 0)
        if rc != 0:
            first = next((l for l in out.splitlines() if l.startswith("error")), "compile error")
            log("VIOLATION property=C16 replay=%s oracle=does-not-compile features=[%s] profile=%s detail=%s" % (path, feats, prof, first[:300]))
            return 1
        log("[replay] features=[%s] profile=%s compiles" % (feats, prof))
        return 0
    cfg = "std-debug"
    m = re.search(r"^expect .*cfg=(\S+)", text, re.M)
    if m and m.group(1) in CONFIGS:
        cfg = m.group(1)
    binary = build(cfg)
    vs, rec = replay_path(binary, path)
    for v in vs:
        log("VIOLATION property=%s replay=%s oracle=%s api=%s detail=%s" % (
            v["property"], path, v["oracle"], v["api"], v.get("detail", "")[:400]))
    if rec:
        log("[replay] digest=%s steps=%s" % (rec["digest"], rec["steps"]))
    return 1 if vs else 0


def main(argv):
    if not argv:
        print(__doc__)
        return 2
    seed = int(os.environ.get("VERIF_SEED", DEFAULT_SEED))
    tier = os.environ.get("VERIF_TIER", "quick")
    try:
        cmd = argv[0]
        if len(argv) > 1 and argv[1] in ("quick", "thorough"):
            tier = argv[1]
        if cmd == "build":
            build_many(list(CONFIGS))
            return 0
        if cmd == "replay":
            return cmd_replay(argv[1])
        if cmd == "manifest":
            import manifest
            manifest.generate(PROPS, VERIF)
            return 0
        if cmd == "selftest":
            import selftest
            return selftest.main(argv[1:])
        if cmd == "all":
            rc = 0
            for p in sorted(PROPS):
                rc = max(rc, check_property(p, tier, seed))
            return rc
        return check_property(cmd.upper(), tier, seed)
    except BuildError as e:
        sys.stderr.write(e.output[-6000:] + "\n")
        log("HARNESS-ERROR %s" % e)
        return 2
    except HarnessError as e:
        log("HARNESS-ERROR %s" % e)
        return 2
