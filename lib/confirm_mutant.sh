#!/bin/bash
# usage: confirm_mutant.sh <worktree> <out-subdir> <id> <property> [cargo feature flags for the demo...]
# Confirms a seeded change: applies, builds, full suite passes, demo fails; reverted: demo passes.
# On success copies it to /verif/seeded/<id>/ with meta.json.
set -u
wt="$1"; out="$2"; id="$3"; prop="$4"; shift 4; feat="$*"
cd "$wt" || exit 2
git checkout -q -- . ; rm -f tests/zz_demo.rs
log=$(mktemp)
res() { echo "$1" | tee -a "$log"; }
git apply "$out/patch.diff" || { res "FAIL: patch does not apply"; exit 1; }
cargo build --offline -q 2>/dev/null || { res "FAIL: default build"; git checkout -q -- .; exit 1; }
cargo build --offline -q --all-features 2>/dev/null || { res "FAIL: all-features build"; git checkout -q -- .; exit 1; }
suite=$(cargo test --offline --workspace --no-fail-fast 2>&1 | grep -E "^test result" | awk '{p+=$4; f+=$6} END {print p" passed "f" failed"}')
res "suite with change: $suite"
case "$suite" in *" 0 failed") ;; *) res "FAIL: suite fails with change"; git checkout -q -- .; exit 1;; esac
demo_with="n/a"; demo_without="n/a"
if [ -f "$out/demo.rs" ]; then
  line=$(head -1 "$out/demo.rs" | sed -n 's|^// cargo-flags: *||p' | sed 's|[(;].*||')
  case "$line" in *--release*) feat="$feat --release";; esac
  case "$line" in *--no-default-features*) feat="$feat --no-default-features";; esac
  f2=$(echo "$line" | grep -o -- '--features [a-z,]*' | head -1)
  case "$feat" in *--features*) ;; *) feat="$feat $f2";; esac
  cp "$out/demo.rs" tests/zz_demo.rs
  if cargo test --offline $feat --test zz_demo >/dev/null 2>&1; then demo_with="passes"; else demo_with="fails"; fi
  git checkout -q -- .
  if cargo test --offline $feat --test zz_demo >/dev/null 2>&1; then demo_without="passes"; else demo_without="fails"; fi
  rm -f tests/zz_demo.rs
fi
git checkout -q -- .
res "demo with change: $demo_with; without: $demo_without"
if [ "$demo_with" = "fails" ] && [ "$demo_without" = "passes" ]; then
  d=/verif/seeded/$id; mkdir -p "$d"; cp "$out/patch.diff" "$d/"; cp "$out/demo.rs" "$d/" 2>/dev/null; cp "$out/README.md" "$d/" 2>/dev/null
  python3 - "$d" "$id" "$prop" "$suite" "$feat" <<'PY'
import json,sys
d,id_,prop,suite,feat=sys.argv[1:6]
readme=open(d+"/README.md").read() if __import__("os").path.exists(d+"/README.md") else ""
json.dump({"id":id_,"property":prop,"source":"independent sub-agent given only the property text","needs":readme[:1200],
 "confirmed":{"builds":"cargo build --offline [--all-features] ok","suite_with_change":suite,"demo_with_change":"fails","demo_without_change":"passes","demo_cmd":"cargo test --offline %s --test zz_demo"%feat},
 "detected_by":None},open(d+"/meta.json","w"),indent=1)
PY
  res "CONFIRMED -> $d"
else
  res "NOT CONFIRMED"
fi
