#!/usr/bin/env python3
"""Turn the log of `./check selftest sensitivity` into seeded/SENSITIVITY.md.

usage: sens_table.py <log> [<log> ...]   (later logs override earlier rows of the same change)
"""
import re
import sys

rows = {}
for path in sys.argv[1:]:
    for line in open(path, errors="replace"):
        m = re.match(r"\[sensitivity\] (\S+)\s+(C\d\d) (DETECTED|EXPECTED-MISS|MISSED|patch does not apply)(.*)\((\d+)s\)\s*$", line)
        if not m:
            continue
        name, prop, verdict, rest, secs = m.groups()
        oracle = re.search(r"oracle=(\S+)", rest)
        api = re.search(r"api=(.*?) cfg=", rest)
        rows[name] = (prop, verdict, oracle.group(1) if oracle else "", api.group(1) if api else "", secs)

out = ["# `./check selftest sensitivity` — last full run", "",
       "Every change under /verif/seeded was applied to /repo, the quick check of its property was run, and the tree was restored.",
       "EXPECTED-MISS = documented in the change's meta.json (and DESIGN.md section 7) as outside what the check decides.", "",
       "| change | property | result | first oracle | api | seconds |", "|---|---|---|---|---|---|"]
for name in sorted(rows):
    prop, verdict, oracle, api, secs = rows[name]
    out.append("| %s | %s | %s | %s | %s | %s |" % (name, prop, verdict, oracle, api, secs))
n = len(rows)
det = sum(1 for r in rows.values() if r[1] == "DETECTED")
exp = sum(1 for r in rows.values() if r[1] == "EXPECTED-MISS")
out += ["", "%d changes, %d detected, %d expected misses, %d unexpected misses." % (n, det, exp, n - det - exp)]
print("\n".join(out))
