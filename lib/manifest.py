"""Generates /verif/MANIFEST.json from the property table (./check manifest)."""
import json
import os
import subprocess

NA = {
    "C01": "pure function of (a, b): no schedule, clock, fault, history or environment in any clause, so a simulator has nothing to decide; its code is executed (not judged) by the C04/C14/C15 simulations",
    "C02": "pure function of (a, b); the algorithm regime is itself a function of the operand lengths; executed, unclaimed, by the C14 size swarm and C15",
    "C03": "pure function of (a, b) and the API chosen; only its failure clause (zero divisor => panic / checked => None) is fault handling and that clause is decided under C14",
    "C05": "pure function of (b, e, m); its zero-modulus / negative-exponent panics are decided under C14",
    "C06": "pure function of (value, radix) resp. of the input string; std-vs-no_std estimates are decided under C16, ASCII validity of the unchecked String under C15",
    "C07": "pure function of the operands; negative-shift panics are decided under C14",
    "C08": "pure function of one value; the std/no_std powi difference is part of the C16 transcripts",
    "C10": "differential statement about pure functions; the only history-dependent ingredient (buffer choice by capacity) is exercised by C04 under C04's oracle only",
    "C12": "pure function of (x, e)",
    "C13": "pure function of (a, b)",
    "C19": "one-line pure functions of a value; the state-bearing parts (from_biguint/assign_from_slice canonicalisation, set_zero/set_one on reused buffers) are inside C04's vocabulary and judged there",
    "C20": "one deterministic execution per operand shape plus a counter read: no schedule, fault, history or environment to search, and performance is outside what simulation decides; reading a work counter would be runtime monitoring, a different technique",
}

TEXT = {
    "C09": ("seeded search over interleavings of front/back consumption of the digit iterators, each step checked against a VecDeque reference model; "
            "plus export -> perturbing transport -> import round trips over history-laden values against a byte/word reference model, with the "
            "caller's slice placed at every address residue and receivers carrying large stale capacity. "
            "Sampled, not exhaustive: a clean batch is evidence, not proof.",
            "VecDeque/RefNat reference models, iter_u64_digits() as observation channel, x86_64 only",
            "deterministic simulation: seeded interleaving search of a two-ended iterator vs VecDeque model; perturbing byte/word transport",
            "DESIGN.md section 3, C09"),
    "C04": ("seeded search over histories of public operations on a register file of live objects (the hidden state: capacity, stale digits, "
            "buffer reuse, allocator contents); after every step all objects must be canonical and objects with equal denotation must be "
            "indistinguishable (Eq, Ord, Hash, digit/byte/text exports), different ones ordered numerically; injected documented failures "
            "under catch_unwind; objects arriving from simulated serde peers, incl. what a failed in-place decode leaves behind. Sampled, not exhaustive.",
            "denote() via iter_u64_digits()+sign(); RefNat order; receiver of a panicked op is re-initialised; x86_64 only",
            "deterministic simulation: seeded operation histories on a register file, canonical-form and indistinguishability invariants after every step",
            "DESIGN.md section 3, C04"),
    "C11": ("the Newton starting point is treated as an environmental input: a hook lets the simulator replace it by what another platform or "
            "configuration would supply (the no_std power-of-two guess, a libm that is off by ulps, off-by-one/two) and the fix-point retry "
            "loop must converge to the same exact floor root, verified with an independent schoolbook power comparison; the same seeds are "
            "replayed against the std and no_std library builds in both profiles and the result transcripts must be byte-identical; index-enumerated "
            "regimes cover every degree up to 30000 at the roots 1-3 and degrees with thousands of linear Newton rounds. Sampled.",
            "RefNat floor-root oracle; perturbations restricted to realistic ones; hook default = identity",
            "deterministic simulation: fault injection on the Newton initial guess (environment seam) + identical transcripts across std/no_std builds",
            "DESIGN.md section 3, C11"),
    "C14": ("fault enumeration: the complete list of (operation form, documented-failure class) sites is executed at the end of sampled histories "
            "in the debug and the release harness - must panic / checked variant must be None / negative sites must return; plus the complement "
            "as exploration: size-swarm histories across all internal thresholds where every non-failure step must return. Panics, fatal signals "
            "and hangs are observed by the supervisor. The site list is enumerated completely, operands are sampled.",
            "expect() classification from reference denotations; supervisor (catch_unwind, signal handler, watchdog); memory-exhausting sizes skipped",
            "deterministic simulation: fault-site enumeration (invalid operand = injected fault, panic = crash of the operation) + supervised size-swarm histories",
            "DESIGN.md section 3, C14"),
    "C15": ("the global allocator is simulated: every block alone on its pages, flush against a PROT_NONE page (end or start chosen per allocation "
            "from the run PRNG), garbage-filled, realloc always moves, freed memory inaccessible, borrowed operands optionally read-only; the same "
            "plan runs under the plain and the simulated allocator and the transcripts must agree; produced text is checked byte-wise; in half of the "
            "fault-injecting plans the receiver of an unwound (documented-failure) operation stays in use and every later step over it is held to "
            "memory safety only. Inline "
            "assembly is invisible to Miri/ASan, a page fault is not. Sampled, not exhaustive.",
            "page-granular observation; Linux mmap/mprotect; asm operand declarations trusted",
            "deterministic simulation: simulated guard-page allocator (placement/garbage/move faults) + allocator-independence of transcripts",
            "DESIGN.md section 3, C15"),
    "C16": ("build matrix: cargo check of every supported feature subset (16 with std, 4 without) in the dev profile plus release for three of them; "
            "transcript equality: the harness is built against the library in {std,no_std} x {debug,release} and identical seeds must give "
            "byte-identical per-run transcripts (every result digit, text, float bit pattern, None/panic flag). The build half is a plain compile "
            "check; the value half is sampled.",
            "cargo/rustc; only x86_64-unknown-linux-gnu installed; quickcheck/arbitrary arrivals excluded from transcripts (std-only)",
            "deterministic simulation: identical seed-determined transcripts replayed in every build configuration + compile matrix",
            "DESIGN.md section 3, C16"),
    "C17": ("both serde endpoints and the token transport between them are simulated; seeded search over values, construction routes, "
            "transport faults (padding, truncation, duplication, wide elements, EOF, lying size_hint, failing serializer/deserializer) with a "
            "token-level reference model and an allocation cap measured by the simulated allocator; the same model judges every object written by "
            "every step of register-machine value histories. Sampled, not exhaustive.",
            "serde_model token grammar; TokSerializer/TokDeserializer; SimAlloc request tracking; x86_64 only",
            "deterministic simulation: simulated serde peers + faulty token transport vs reference token model",
            "DESIGN.md section 3, C17"),
    "C18": ("the RNG is replaced by a scripted, logged byte stream; seeded search over streams (stuck-at, adversarial candidates, healing) and call "
            "histories; results compared with the documented stream function, bounds, canonical form; tiny bounds enumerate every first candidate; "
            "liveness by construction (every stream heals to zeros, a hang is reported by the watchdog), stuck-at faults of up to 2.5e7 rejected "
            "candidates in one call. Sampled, not exhaustive.",
            "rng_model of the documented stream function; SimRng byte-stream semantics; rand 0.8.8",
            "deterministic simulation: scripted RNG stream with adversarial/healing segments vs reference stream-function model",
            "DESIGN.md section 3, C18"),
}


def generate(props, verif):
    hooks_commits = []
    try:
        out = subprocess.run(["git", "-C", "/repo", "log", "--format=%h %s"], stdout=subprocess.PIPE, text=True).stdout
        for line in out.splitlines():
            if line.split(" ", 1)[1].startswith("verif hooks"):
                hooks_commits.append(line.split()[0])
    except Exception:
        pass
    checks = []
    for pid in sorted(props):
        spec = props[pid]
        text, note, technique, ref = TEXT[pid]
        checks.append({
            "property_id": pid,
            "quick_cmd": "./check %s quick" % pid,
            "thorough_cmd": "./check %s thorough" % pid,
            "evidence_file": "/verif/evidence/%s.json" % pid,
            "replay_cmd_template": "./check replay {path}",
            "engine": "nbsim",
            "level_claimed": {"category": spec["level"], "text": text, "design_ref": ref},
            "level_note": note,
            "technique": technique,
        })
    man = {
        "version": 1,
        "setup_cmd": "./check build",
        "hooks": {
            "guard": "--cfg num_bigint_verif",
            "enable": "RUSTFLAGS='--cfg num_bigint_verif' — set by ./check when it builds /verif/sim (crate nbsim) against /repo's working tree",
            "baseline_off_cmd": "cd /repo && cargo test --workspace --no-fail-fast --offline",
            "source_commits": hooks_commits,
            "add_only": True,
        },
        "engines": [{
            "name": "nbsim",
            "path": "/verif/sim",
            "serves_properties": sorted(props),
            "kind_free_text": "seeded deterministic simulator: plans generated from VERIF_SEED before execution, executed against the real library behind simulated seams (RNG, serde endpoints, allocator, iterator consumers, root guess, build configuration), reference-model oracles, ddmin minimisation, replay files",
        }],
        "checks": checks,
        "not_applicable": [{"property_id": k, "reason": v} for k, v in sorted(NA.items()) if k not in props],
        "notes": "See DESIGN.md. Known findings: known_findings.json. Exit codes: 0 held, 1 violation, 2 harness error.",
    }
    with open(os.path.join(verif, "MANIFEST.json"), "w") as f:
        json.dump(man, f, indent=1)
        f.write("\n")
    return man
