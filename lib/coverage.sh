#!/bin/bash
# Developer tool (not a registered check): line coverage of /repo/src reached by the scenarios.
# Needs the nightly toolchain with llvm-tools (present in this image). Output: /verif/work/cov/report.txt
set -e
T=$(dirname "$(find ~/.rustup/toolchains/nightly-x86_64-unknown-linux-gnu -name llvm-cov | head -1)")
D=/verif/work/cov; mkdir -p $D; cd /verif/sim
RUSTFLAGS="--cfg num_bigint_verif --check-cfg cfg(num_bigint_verif) -C instrument-coverage" cargo +nightly build --offline --quiet --target-dir $D/target
B=$D/target/debug/nbsim; rm -f $D/*.profraw
for s in $($B list | cut -d' ' -f1); do
  n=6000; case $s in c09iter|c09bytes|c17|c18) n=30000;; esac
  LLVM_PROFILE_FILE="$D/$s-%p.profraw" $B run --scenario $s --seed 5 --count $n > /dev/null
  LLVM_PROFILE_FILE="$D/$s-t-%p.profraw" $B run --scenario $s --seed 6 --tier thorough --count 400 > /dev/null
done
$T/llvm-profdata merge -sparse $D/*.profraw -o $D/all.profdata
$T/llvm-cov report $B -instr-profile=$D/all.profdata --ignore-filename-regex='(registry|verif/sim|rustc|rustup)' > $D/report.txt
tail -3 $D/report.txt
