//! The register machine shared by the history scenarios (C04, C14, C15, C16):
//! a file of BigUint and BigInt objects that live for a whole run and a vocabulary of steps covering
//! the public state-changing, constructing and exporting operations in all their forms.
//!
//! `expect()` classifies a step *before* it runs, from reference denotations only: does the
//! documentation say it fails (panic), must a checked variant answer None, or must it return?
//! `apply()` executes it against the real library.

use crate::obs::{denote_i, denote_u};
use crate::plan::{Digest, Step};
use crate::refnat::{RefInt, RefNat};
use num_bigint::{BigInt, BigUint, Sign, ToBigInt};
use num_integer::{Integer, Roots};
use num_traits::{
    CheckedAdd, CheckedDiv, CheckedEuclid, CheckedMul, CheckedSub, Euclid, FromPrimitive, Num, One, Pow, Signed,
    ToPrimitive, Zero,
};
use std::cmp::Ordering;
use std::collections::hash_map::DefaultHasher;
use std::hash::{Hash, Hasher};
use std::mem;

pub const NU: usize = 6;
pub const NI: usize = 6;
/// values are kept below this many 32-bit words; growing operations beyond it are skipped
pub const CAP_WORDS: usize = 3400;

pub struct Machine {
    pub u: Vec<BigUint>,
    pub i: Vec<BigInt>,
}

#[derive(Clone, Debug, PartialEq)]
pub enum Expect {
    /// must return normally
    Ok,
    /// documented failure: must panic (class name)
    Panic(&'static str),
    /// checked variant in its failure case: must return None without panicking
    CheckedNone,
    /// step is outside the size envelope (or malformed): not executed
    Skip,
}

/// What a step made observable besides the registers.
#[derive(Default, Debug)]
pub struct Obs {
    /// an Option-returning operation answered None
    pub none: bool,
    /// text produced (checked for ASCII / digit validity by C15), with the radix it claims
    pub texts: Vec<(String, u32, bool)>,
    /// registers written or consumed by value (bit masks)
    pub wrote_u: u8,
    pub wrote_i: u8,
    /// the step was skipped (size envelope)
    pub skipped: bool,
}

macro_rules! with_ty {
    ($t:expr, $k:expr, $x:ident => $body:expr) => {
        match $t {
            0 => { let $x = $k as u8; $body }
            1 => { let $x = $k as u16; $body }
            2 => { let $x = $k as u32; $body }
            3 => { let $x = $k as u64; $body }
            4 => { let $x = $k as u128; $body }
            5 => { let $x = $k as usize; $body }
            6 => { let $x = $k as i8; $body }
            7 => { let $x = $k as i16; $body }
            8 => { let $x = $k as i32; $body }
            9 => { let $x = $k as i64; $body }
            10 => { let $x = $k as i128; $body }
            _ => { let $x = $k as isize; $body }
        }
    };
}
macro_rules! with_uty {
    ($t:expr, $k:expr, $x:ident => $body:expr) => {
        match $t {
            0 => { let $x = $k as u8; $body }
            1 => { let $x = $k as u16; $body }
            2 => { let $x = $k as u32; $body }
            3 => { let $x = $k as u64; $body }
            4 => { let $x = $k as u128; $body }
            _ => { let $x = $k as usize; $body }
        }
    };
}

pub const TY_NAMES: [&str; 12] = [
    "u8", "u16", "u32", "u64", "u128", "usize", "i8", "i16", "i32", "i64", "i128", "isize",
];

/// The mathematical value of scalar `k` after the cast to type index `t`.
pub fn scalar_ref(t: i128, k: i128) -> RefInt {
    match t {
        0 => RefInt::from_i128((k as u8) as i128),
        1 => RefInt::from_i128((k as u16) as i128),
        2 => RefInt::from_i128((k as u32) as i128),
        3 => RefInt::from_i128((k as u64) as i128),
        4 => RefInt::new(false, RefNat::from_u128(k as u128)),
        5 => RefInt::from_i128((k as usize) as i128),
        6 => RefInt::from_i128((k as i8) as i128),
        7 => RefInt::from_i128((k as i16) as i128),
        8 => RefInt::from_i128((k as i32) as i128),
        9 => RefInt::from_i128((k as i64) as i128),
        10 => RefInt::from_i128(k),
        _ => RefInt::from_i128((k as isize) as i128),
    }
}

fn sign_of(x: i128) -> Sign {
    match x {
        0 => Sign::NoSign,
        x if x < 0 => Sign::Minus,
        _ => Sign::Plus,
    }
}

fn hash_of<T: Hash>(x: &T) -> u64 {
    let mut h = DefaultHasher::new();
    x.hash(&mut h);
    h.finish()
}

fn words(x: &BigUint) -> usize {
    x.iter_u64_digits().len() * 2
}

impl Machine {
    pub fn new() -> Machine {
        Machine {
            u: (0..NU).map(|_| BigUint::default()).collect(),
            i: (0..NI).map(|_| BigInt::default()).collect(),
        }
    }

    fn ru(&self, s: &Step, k: &str) -> usize {
        s.us(k) % NU
    }
    fn ri(&self, s: &Step, k: &str) -> usize {
        s.us(k) % NI
    }

    // ------------------------------------------------------------------------------------------
    // classification

    /// Classification; a step marked `safe=1` is skipped instead of running into a documented failure.
    pub fn expect(&self, s: &Step) -> Expect {
        match self.expect_raw(s) {
            Expect::Panic(_) if s.int("safe") != 0 => Expect::Skip,
            e => e,
        }
    }

    fn expect_raw(&self, s: &Step) -> Expect {
        let op = s.op.as_str();
        let o = s.str("o");
        let zu = |r: usize| denote_u(&self.u[r]).is_zero();
        let zi = |r: usize| denote_i(&self.i[r]).is_zero();
        let (d, a, b, c) = (s.us("d"), s.us("a"), s.us("b"), s.us("c"));
        let t = s.int("t");
        let k = s.int("k");
        let radix = s.int("r");
        let div_like = |o: &str| matches!(o, "div" | "rem");
        match op {
            // ---- BigUint --------------------------------------------------------------------
            "u.bin" | "u.asn" => {
                let (x, y) = if op == "u.asn" { (d % NU, b % NU) } else { (a % NU, b % NU) };
                match o {
                    "sub" => {
                        if denote_u(&self.u[x]).cmp(&denote_u(&self.u[y])) == Ordering::Less {
                            return Expect::Panic("biguint-underflow");
                        }
                    }
                    "div" | "rem" => {
                        if zu(y) {
                            return Expect::Panic("div-by-zero");
                        }
                    }
                    "mul" => {
                        if words(&self.u[x]) + words(&self.u[y]) > CAP_WORDS {
                            return Expect::Skip;
                        }
                    }
                    _ => {}
                }
                Expect::Ok
            }
            "u.sc" => {
                // side 0/1: reg op k ; 2/3: k op reg ; 4: reg op= k
                let side = s.int("f");
                let reg = if side == 4 { d % NU } else { a % NU };
                let kv = scalar_ref(t, k);
                let rv = RefInt::new(false, denote_u(&self.u[reg]));
                let (lhs, rhs) = if matches!(side, 2 | 3 | 6 | 8) { (kv, rv) } else { (rv, kv) };
                match o {
                    "sub" => {
                        if lhs.cmp(&rhs) == Ordering::Less {
                            return Expect::Panic("biguint-underflow");
                        }
                    }
                    "div" | "rem" => {
                        if rhs.is_zero() {
                            return Expect::Panic("div-by-zero");
                        }
                    }
                    "mul" => {
                        if words(&self.u[reg]) + 4 > CAP_WORDS {
                            return Expect::Skip;
                        }
                    }
                    _ => {}
                }
                Expect::Ok
            }
            "u.primrem" | "i.primrem" => {
                let z = if op == "u.primrem" { zu(b % NU) } else { zi(b % NI) };
                if z {
                    Expect::Panic("div-by-zero")
                } else {
                    Expect::Ok
                }
            }
            "u.shl" | "u.shr" | "i.shl" | "i.shr" => {
                let kv = scalar_ref(t, k);
                if kv.neg {
                    return Expect::Panic("negative-shift");
                }
                let amount = kv.mag.to_u128().unwrap_or(u128::MAX);
                let reg_words = if op.starts_with("u.") {
                    let r = if s.int("f") == 2 || s.int("f") == 4 { d % NU } else { a % NU };
                    words(&self.u[r])
                } else {
                    let r = if s.int("f") == 2 || s.int("f") == 4 { d % NI } else { a % NI };
                    words(self.i[r].magnitude())
                };
                if op.ends_with("shl") && reg_words > 0 && (amount > 40_000 || reg_words + (amount as usize) / 32 > CAP_WORDS) {
                    return Expect::Skip;
                }
                Expect::Ok
            }
            "u.dec" => {
                if zu(d % NU) {
                    Expect::Panic("biguint-underflow")
                } else {
                    Expect::Ok
                }
            }
            "u.pow" | "i.pow" => {
                let kv = scalar_ref(t.min(5), k);
                // form 3 is the inherent pow(u32)
                let e = if s.int("f") == 3 { (k as u32) as u128 } else { kv.mag.to_u128().unwrap_or(u128::MAX) };
                let bits = if op == "u.pow" { denote_u(&self.u[a % NU]).bits() } else { denote_i(&self.i[a % NI]).mag.bits() };
                if bits > 1 && (e > 4096 || bits as u128 * e > (CAP_WORDS as u128) * 32) {
                    return Expect::Skip;
                }
                Expect::Ok
            }
            "u.powbig" => {
                // base.pow(BigUint exponent): exponent register b
                let e = denote_u(&self.u[b % NU]);
                let bits = denote_u(&self.u[a % NU]).bits();
                match e.to_u128() {
                    Some(e) if bits <= 1 || (e <= 4096 && bits as u128 * e <= (CAP_WORDS as u128) * 32) => Expect::Ok,
                    _ if bits <= 1 => Expect::Ok,
                    _ => Expect::Skip,
                }
            }
            "u.modpow" => {
                if zu(c % NU) {
                    return Expect::Panic("zero-modulus");
                }
                if words(&self.u[b % NU]) > 8 || words(&self.u[c % NU]) > 200 {
                    return Expect::Skip;
                }
                Expect::Ok
            }
            "i.modpow" => {
                if denote_i(&self.i[b % NI]).neg {
                    return Expect::Panic("negative-exponent");
                }
                if zi(c % NI) {
                    return Expect::Panic("zero-modulus");
                }
                if words(self.i[b % NI].magnitude()) > 8 || words(self.i[c % NI].magnitude()) > 200 {
                    return Expect::Skip;
                }
                Expect::Ok
            }
            "u.modinv" => {
                if zu(b % NU) {
                    Expect::Panic("zero-modulus")
                } else {
                    Expect::Ok
                }
            }
            "i.modinv" => {
                if zi(b % NI) {
                    Expect::Panic("zero-modulus")
                } else {
                    Expect::Ok
                }
            }
            "u.root" => {
                let n = s.int("k") as u32;
                if o == "nth" && n == 0 {
                    return Expect::Panic("zeroth-root");
                }
                Expect::Ok
            }
            "i.root" => {
                let n = s.int("k") as u32;
                let neg = denote_i(&self.i[a % NI]).neg;
                match o {
                    "nth" if n == 0 => Expect::Panic("zeroth-root"),
                    "nth" if neg && n % 2 == 0 => Expect::Panic("even-root-of-negative"),
                    "sqrt" if neg => Expect::Panic("even-root-of-negative"),
                    _ => Expect::Ok,
                }
            }
            "u.int" | "i.int" => {
                let z = if op == "u.int" { zu(b % NU) } else { zi(b % NI) };
                let zero_ok = matches!(o, "gcd" | "lcm" | "gcd_lcm" | "is_multiple_of" | "divides" | "parity" | "extended_gcd" | "extended_gcd_lcm" | "abs_sub");
                if o == "lcm" || o == "gcd_lcm" || o == "extended_gcd_lcm" {
                    let w = if op == "u.int" {
                        words(&self.u[a % NU]) + words(&self.u[b % NU])
                    } else {
                        words(self.i[a % NI].magnitude()) + words(self.i[b % NI].magnitude())
                    };
                    if w > CAP_WORDS {
                        return Expect::Skip;
                    }
                }
                if z && !zero_ok {
                    Expect::Panic("div-by-zero")
                } else {
                    Expect::Ok
                }
            }
            "u.checked" | "i.checked" => {
                let z = if op == "u.checked" { zu(b % NU) } else { zi(b % NI) };
                match o {
                    "sub" if op == "u.checked" => {
                        if denote_u(&self.u[a % NU]).cmp(&denote_u(&self.u[b % NU])) == Ordering::Less {
                            Expect::CheckedNone
                        } else {
                            Expect::Ok
                        }
                    }
                    "div" | "div_euclid" | "rem_euclid" | "div_rem_euclid" if z => Expect::CheckedNone,
                    "mul" => {
                        let w = if op == "u.checked" {
                            words(&self.u[a % NU]) + words(&self.u[b % NU])
                        } else {
                            words(self.i[a % NI].magnitude()) + words(self.i[b % NI].magnitude())
                        };
                        if w > CAP_WORDS {
                            Expect::Skip
                        } else {
                            Expect::Ok
                        }
                    }
                    _ => Expect::Ok,
                }
            }
            "u.rand" | "i.rand" => {
                if !cfg!(feature = "opt") {
                    return Expect::Skip;
                }
                let f = s.int("f");
                let ord = if op == "u.rand" {
                    denote_u(&self.u[a % NU]).cmp(&denote_u(&self.u[b % NU]))
                } else {
                    denote_i(&self.i[a % NI]).cmp(&denote_i(&self.i[b % NI]))
                };
                let fails = match f {
                    0 => {
                        if op == "u.rand" { zu(a % NU) } else { zi(a % NI) }
                    }
                    3 | 6 => ord == Ordering::Greater,
                    _ => ord != Ordering::Less,
                };
                if fails {
                    Expect::Panic("empty-or-inverted-range")
                } else {
                    Expect::Ok
                }
            }
            "u.to_str" | "i.to_str" | "u.parse" | "i.parse" => {
                if !(2..=36).contains(&radix) {
                    Expect::Panic("radix-out-of-range")
                } else {
                    Expect::Ok
                }
            }
            "u.to_radix" | "i.to_radix" | "u.from_radix" | "i.from_radix" => {
                if !(2..=256).contains(&radix) {
                    Expect::Panic("radix-out-of-range")
                } else {
                    Expect::Ok
                }
            }
            // ---- BigInt ---------------------------------------------------------------------
            "i.bin" | "i.asn" => {
                let (x, y) = if op == "i.asn" { (d % NI, b % NI) } else { (a % NI, b % NI) };
                if div_like(o) && zi(y) {
                    return Expect::Panic("div-by-zero");
                }
                if o == "mul" && words(self.i[x].magnitude()) + words(self.i[y].magnitude()) > CAP_WORDS {
                    return Expect::Skip;
                }
                Expect::Ok
            }
            "i.sc" => {
                let side = s.int("f");
                let reg = if side == 4 { d % NI } else { a % NI };
                let kv = scalar_ref(t, k);
                let rz = zi(reg);
                let rhs_zero = if matches!(side, 2 | 3 | 6 | 8) { rz } else { kv.is_zero() };
                if div_like(o) && rhs_zero {
                    return Expect::Panic("div-by-zero");
                }
                if o == "mul" && words(self.i[reg].magnitude()) + 4 > CAP_WORDS {
                    return Expect::Skip;
                }
                Expect::Ok
            }
            // `x -= &(x with its low digits changed and one more high bit)`: always the documented underflow panic; what
            // it leaves behind in x (digits of x - y mod 2^(64 len), high zero digits included) is the point of the step
            "u.unwind" => Expect::Panic("biguint-underflow"),
            "u.set_bit" | "i.set_bit" => {
                if s.int("k") > 40_000 {
                    Expect::Skip
                } else {
                    Expect::Ok
                }
            }
            _ => Expect::Ok,
        }
    }

    // ------------------------------------------------------------------------------------------
    // execution

    fn take_u(&mut self, r: usize, mv: bool, obs: &mut Obs) -> BigUint {
        if mv {
            obs.wrote_u |= 1 << r;
            mem::take(&mut self.u[r])
        } else {
            self.u[r].clone()
        }
    }
    fn take_i(&mut self, r: usize, mv: bool, obs: &mut Obs) -> BigInt {
        if mv {
            obs.wrote_i |= 1 << r;
            mem::take(&mut self.i[r])
        } else {
            self.i[r].clone()
        }
    }
    fn put_u(&mut self, r: usize, v: BigUint, obs: &mut Obs) {
        obs.wrote_u |= 1 << r;
        self.u[r] = v;
    }
    fn put_i(&mut self, r: usize, v: BigInt, obs: &mut Obs) {
        obs.wrote_i |= 1 << r;
        self.i[r] = v;
    }

    /// Execute one step. Panics of the library propagate to the caller (who wraps this in `catch`).
    pub fn apply(&mut self, s: &Step, dg: &mut Digest, obs: &mut Obs) {
        let op = s.op.as_str();
        let o = s.str("o");
        let f = s.int("f");
        let mv = s.int("mv") != 0;
        let t = s.int("t");
        let k = s.int("k");
        if op.starts_with("u.") {
            let (d, a, b, c) = (self.ru(s, "d"), self.ru(s, "a"), self.ru(s, "b"), self.ru(s, "c"));
            match op {
                // ---- constructors ---------------------------------------------------------------
                "u.new" => {
                    let mut v = s.list32("v");
                    let cap = s.us("cap");
                    if cap > 0 {
                        v.reserve_exact(cap);
                    }
                    let x = BigUint::new(v);
                    self.put_u(d, x, obs);
                }
                "u.from_slice" => {
                    let x = BigUint::from_slice(&s.list32("v"));
                    self.put_u(d, x, obs);
                }
                "u.assign_slice" => {
                    obs.wrote_u |= 1 << d;
                    self.u[d].assign_from_slice(&s.list32("v"));
                }
                "u.from_bytes" => {
                    let bytes = s.list8("v");
                    let x = match f {
                        0 => BigUint::from_bytes_le(&bytes),
                        1 => BigUint::from_bytes_be(&bytes),
                        2 => <BigUint as num_traits::FromBytes>::from_le_bytes(&bytes),
                        4 => <BigUint as num_traits::FromBytes>::from_ne_bytes(&bytes),
                        _ => <BigUint as num_traits::FromBytes>::from_be_bytes(&bytes),
                    };
                    self.put_u(d, x, obs);
                }
                "u.from_radix" => {
                    let bytes = s.list8("v");
                    let r = s.int("r") as u32;
                    let x = if f == 0 { BigUint::from_radix_le(&bytes, r) } else { BigUint::from_radix_be(&bytes, r) };
                    match x {
                        Some(x) => self.put_u(d, x, obs),
                        None => obs.none = true,
                    }
                }
                "u.parse" => {
                    let r = s.int("r") as u32;
                    let txt = s.str("s");
                    let x = match f {
                        0 => match BigUint::from_str_radix(txt, r) {
                            Ok(v) => Some(v),
                            Err(e) => {
                                dg.str(&format!("{} / {:?}", e, e));
                                None
                            }
                        },
                        1 => BigUint::parse_bytes(txt.as_bytes(), r),
                        _ => txt.parse::<BigUint>().ok(),
                    };
                    match x {
                        Some(x) => self.put_u(d, x, obs),
                        None => obs.none = true,
                    }
                }
                "u.from_prim" => {
                    use num_bigint::ToBigUint;
                    let x: Option<BigUint> = match f {
                        0 => Some(with_uty!(t, k, x => BigUint::from(x))),
                        1 => with_ty!(t, k, x => BigUint::try_from(x).ok()),
                        2 => with_ty!(t, k, x => x.to_biguint()),
                        3 => Some(BigUint::from(k & 1 == 1)),
                        4 => (f64::from_bits(k as u64)).to_biguint(),
                        5 => (f32::from_bits(k as u32)).to_biguint(),
                        6 => BigUint::from_i128(k),
                        _ => BigUint::from_u128(k as u128),
                    };
                    match x {
                        Some(x) => self.put_u(d, x, obs),
                        None => obs.none = true,
                    }
                }
                "u.from_f64" => {
                    let x = f64::from_bits(k as u64);
                    match BigUint::from_f64(x) {
                        Some(v) => self.put_u(d, v, obs),
                        None => obs.none = true,
                    }
                }
                "u.const" => {
                    let x = match f {
                        0 => BigUint::ZERO,
                        1 => BigUint::zero(),
                        2 => BigUint::one(),
                        _ => BigUint::default(),
                    };
                    self.put_u(d, x, obs);
                }
                "u.from_i" => {
                    // BigInt -> BigUint routes (source register in the other file)
                    let src = s.us("a") % NI;
                    let x = match f {
                        0 => self.i[src].to_biguint(),
                        1 => Some(self.i[src].magnitude().clone()),
                        2 => Some(self.i[src].clone().into_parts().1),
                        3 => BigUint::try_from(self.i[src].clone()).ok(),
                        4 => num_bigint::ToBigUint::to_biguint(&self.i[src]),
                        5 => BigUint::try_from(&self.i[src]).ok(),
                        6 => num_bigint::ToBigUint::to_biguint(&self.u[src % NU]),
                        _ => match BigUint::try_from(self.i[src].clone()) {
                            Ok(v) => Some(v),
                            Err(e) => {
                                // the error hands the original value back and prints something
                                dg.str(&format!("{}", e));
                                let back = e.into_original();
                                dg.u64(hash_of(&back));
                                None
                            }
                        },
                    };
                    match x {
                        Some(x) => self.put_u(d, x, obs),
                        None => obs.none = true,
                    }
                }
                // ---- arrivals from generators / deserialisers (seams S1-S3) ------------------------
                "u.rand" => match rand_u(f, &self.u[a], &self.u[b], &s.list32("v")) {
                    Some(x) => self.put_u(d, x, obs),
                    None => obs.skipped = true,
                },
                "u.arrive" => {
                    let x: Option<BigUint> = arrive_u(f, k, s, obs);
                    match x {
                        Some(x) => self.put_u(d, x, obs),
                        None => obs.none = true,
                    }
                }
                // ---- binary operators, all four forms -------------------------------------------
                "u.bin" => {
                    macro_rules! forms {
                        ($opx:tt) => {{
                            match f {
                                0 => &self.u[a] $opx &self.u[b],
                                1 => { let x = self.take_u(a, mv && a != b, obs); x $opx &self.u[b] }
                                2 => { let y = self.take_u(b, mv && a != b, obs); &self.u[a] $opx y }
                                _ => { let x = self.take_u(a, mv && a != b, obs); let y = self.take_u(b, mv, obs); x $opx y }
                            }
                        }};
                    }
                    let r = match o {
                        "add" => forms!(+),
                        "sub" => forms!(-),
                        "mul" => forms!(*),
                        "div" => forms!(/),
                        "rem" => forms!(%),
                        "and" => forms!(&),
                        "or" => forms!(|),
                        _ => forms!(^),
                    };
                    self.put_u(d, r, obs);
                }
                "u.asn" => {
                    obs.wrote_u |= 1 << d;
                    macro_rules! asn {
                        ($opx:tt) => {{
                            if f == 0 {
                                if d == b {
                                    let y = self.u[b].clone();
                                    self.u[d] $opx &y;
                                } else {
                                    let (x, y) = two_mut(&mut self.u, d, b);
                                    *x $opx &*y;
                                }
                            } else {
                                let y = self.take_u(b, mv && d != b, obs);
                                self.u[d] $opx y;
                            }
                        }};
                    }
                    match o {
                        "add" => asn!(+=),
                        "sub" => asn!(-=),
                        "mul" => asn!(*=),
                        "div" => asn!(/=),
                        "rem" => asn!(%=),
                        "and" => asn!(&=),
                        "or" => asn!(|=),
                        _ => asn!(^=),
                    }
                }
                "u.sc" => {
                    with_uty!(t, k, x => {
                        macro_rules! sc {
                            ($opx:tt, $asg:tt) => {{
                                match f {
                                    0 => { let r = &self.u[a] $opx x; self.put_u(d, r, obs) }
                                    1 => { let v = self.take_u(a, mv, obs); let r = v $opx x; self.put_u(d, r, obs) }
                                    2 => { let r = x $opx &self.u[a]; self.put_u(d, r, obs) }
                                    3 => { let v = self.take_u(a, mv, obs); let r = x $opx v; self.put_u(d, r, obs) }
                                    5 => { let r = &self.u[a] $opx &x; self.put_u(d, r, obs) }
                                    6 => { let r = &x $opx &self.u[a]; self.put_u(d, r, obs) }
                                    7 => { let v = self.take_u(a, mv, obs); let r = v $opx &x; self.put_u(d, r, obs) }
                                    8 => { let v = self.take_u(a, mv, obs); let r = &x $opx v; self.put_u(d, r, obs) }
                                    _ => { obs.wrote_u |= 1 << d; self.u[d] $asg x; }
                                }
                            }};
                        }
                        match o {
                            "add" => sc!(+, +=),
                            "sub" => sc!(-, -=),
                            "mul" => sc!(*, *=),
                            "div" => sc!(/, /=),
                            _ => sc!(%, %=),
                        }
                    });
                }
                "u.primrem" => {
                    let r: RefInt = with_ty!(t, k, x => {
                        let mut y = x;
                        if f == 0 { y %= &self.u[b]; } else { let v = self.take_u(b, false, obs); y %= v; }
                        scalar_ref(t, y as i128)
                    });
                    dg.u32s(&r.mag.0);
                    dg.u64(r.neg as u64);
                }
                "u.shl" | "u.shr" => {
                    let left = op == "u.shl";
                    with_ty!(t, k, x => {
                        match f {
                            0 => { let r = if left { &self.u[a] << x } else { &self.u[a] >> x }; self.put_u(d, r, obs) }
                            1 => { let v = self.take_u(a, mv, obs); let r = if left { v << x } else { v >> x }; self.put_u(d, r, obs) }
                            2 => { obs.wrote_u |= 1 << d; if left { self.u[d] <<= x } else { self.u[d] >>= x } }
                            3 => { let r = if left { &self.u[a] << &x } else { &self.u[a] >> &x }; self.put_u(d, r, obs) }
                            5 => { let v = self.take_u(a, mv, obs); let r = if left { v << &x } else { v >> &x }; self.put_u(d, r, obs) }
                            _ => { obs.wrote_u |= 1 << d; if left { self.u[d] <<= &x } else { self.u[d] >>= &x } }
                        }
                    });
                }
                "u.set_bit" => {
                    obs.wrote_u |= 1 << d;
                    self.u[d].set_bit(k as u64, f != 0);
                }
                "u.unwind" => {
                    obs.wrote_u |= 1 << d;
                    let len = self.u[d].iter_u64_digits().len() as u64;
                    let mut y = self.u[d].clone();
                    y += BigUint::new(s.list32("v"));
                    y.set_bit(64 * (y.iter_u64_digits().len() as u64).max(len) + (k as u64 % 130), true);
                    self.u[d] -= &y;
                }
                "u.set_zero" => {
                    obs.wrote_u |= 1 << d;
                    self.u[d].set_zero();
                }
                "u.set_one" => {
                    obs.wrote_u |= 1 << d;
                    self.u[d].set_one();
                }
                "u.inc" => {
                    obs.wrote_u |= 1 << d;
                    self.u[d].inc();
                }
                "u.dec" => {
                    obs.wrote_u |= 1 << d;
                    self.u[d].dec();
                }
                "u.clone_from" => {
                    obs.wrote_u |= 1 << d;
                    if d != a {
                        let (x, y) = two_mut(&mut self.u, d, a);
                        x.clone_from(y);
                    }
                }
                "u.clone" => {
                    let x = self.u[a].clone();
                    self.put_u(d, x, obs);
                }
                "u.swap" => {
                    obs.wrote_u |= (1 << d) | (1 << a);
                    self.u.swap(d, a);
                }
                "u.take" => {
                    let x = self.take_u(a, true, obs);
                    self.put_u(d, x, obs);
                }
                "u.pow" => {
                    let r = match f {
                        0 => with_uty!(t, k, x => Pow::pow(&self.u[a], x)),
                        1 => { let v = self.take_u(a, mv, obs); with_uty!(t, k, x => Pow::pow(v, x)) }
                        2 => with_uty!(t, k, x => Pow::pow(&self.u[a], &x)),
                        4 => { let v = self.take_u(a, mv, obs); with_uty!(t, k, x => Pow::pow(v, &x)) }
                        _ => BigUint::pow(&self.u[a], k as u32),
                    };
                    self.put_u(d, r, obs);
                }
                "u.powbig" => {
                    let r = match f {
                        0 => Pow::pow(&self.u[a], &self.u[b]),
                        1 => { let e = self.u[b].clone(); Pow::pow(&self.u[a], e) }
                        2 => { let v = self.u[a].clone(); Pow::pow(v, &self.u[b]) }
                        _ => { let v = self.u[a].clone(); let e = self.u[b].clone(); Pow::pow(v, e) }
                    };
                    self.put_u(d, r, obs);
                }
                "u.modpow" => {
                    let r = self.u[a].modpow(&self.u[b], &self.u[c]);
                    self.put_u(d, r, obs);
                }
                "u.modinv" => match self.u[a].modinv(&self.u[b]) {
                    Some(r) => self.put_u(d, r, obs),
                    None => obs.none = true,
                },
                "u.root" => {
                    let n = k as u32;
                    let r = match (o, f) {
                        ("sqrt", 0) => self.u[a].sqrt(),
                        ("sqrt", _) => Roots::sqrt(&self.u[a]),
                        ("cbrt", 0) => self.u[a].cbrt(),
                        ("cbrt", _) => Roots::cbrt(&self.u[a]),
                        (_, 0) => self.u[a].nth_root(n),
                        _ => Roots::nth_root(&self.u[a], n),
                    };
                    self.put_u(d, r, obs);
                }
                "u.int" => {
                    let (x, y) = (&self.u[a], &self.u[b]);
                    let d2 = (d + 1) % NU;
                    let mut second: Option<BigUint> = None;
                    let r: Option<BigUint> = match o {
                        "div_rem" => { let (q, r) = x.div_rem(y); second = Some(r); Some(q) }
                        "div_floor" => Some(x.div_floor(y)),
                        "mod_floor" => Some(x.mod_floor(y)),
                        "div_mod_floor" => { let (q, r) = x.div_mod_floor(y); second = Some(r); Some(q) }
                        "div_ceil" => Some(Integer::div_ceil(x, y)),
                        "div_euclid" => Some(Euclid::div_euclid(x, y)),
                        "rem_euclid" => Some(Euclid::rem_euclid(x, y)),
                        "div_rem_euclid" => { let (q, r) = Euclid::div_rem_euclid(x, y); second = Some(r); Some(q) }
                        "next_multiple_of" => {
                            if words(x) + 2 > CAP_WORDS { None } else { Some(x.next_multiple_of(y)) }
                        }
                        "prev_multiple_of" => Some(x.prev_multiple_of(y)),
                        "gcd" => Some(x.gcd(y)),
                        "lcm" => Some(x.lcm(y)),
                        "gcd_lcm" => { let (g, l) = x.gcd_lcm(y); second = Some(l); Some(g) }
                        "is_multiple_of" => { dg.u64(x.is_multiple_of(y) as u64); None }
                        #[allow(deprecated)]
                        "divides" => { dg.u64(x.divides(y) as u64); None }
                        _ => { dg.u64(x.is_even() as u64 + 2 * x.is_odd() as u64); None }
                    };
                    if let Some(r) = r {
                        self.put_u(d, r, obs);
                    }
                    if let Some(r2) = second {
                        self.put_u(d2, r2, obs);
                    }
                }
                "u.checked" => {
                    let (x, y) = (&self.u[a], &self.u[b]);
                    let d2 = (d + 1) % NU;
                    let mut second = None;
                    let r = match o {
                        "add" => CheckedAdd::checked_add(x, y),
                        "sub" => CheckedSub::checked_sub(x, y),
                        "mul" => CheckedMul::checked_mul(x, y),
                        "div" => CheckedDiv::checked_div(x, y),
                        "div_euclid" => CheckedEuclid::checked_div_euclid(x, y),
                        "rem_euclid" => CheckedEuclid::checked_rem_euclid(x, y),
                        _ => CheckedEuclid::checked_div_rem_euclid(x, y).map(|(q, r)| { second = Some(r); q }),
                    };
                    match r {
                        Some(r) => self.put_u(d, r, obs),
                        None => obs.none = true,
                    }
                    if let Some(r2) = second {
                        self.put_u(d2, r2, obs);
                    }
                }
                "u.sum" => {
                    // Sum / Product over a set of registers given as bit mask k
                    let sel: Vec<usize> = (0..NU).filter(|r| (k >> r) & 1 == 1).collect();
                    let total_words: usize = sel.iter().map(|&r| words(&self.u[r])).sum();
                    let r: BigUint = match f {
                        0 => sel.iter().map(|&r| &self.u[r]).sum(),
                        1 => sel.iter().map(|&r| self.u[r].clone()).sum(),
                        2 if total_words <= CAP_WORDS => sel.iter().map(|&r| &self.u[r]).product(),
                        3 if total_words <= CAP_WORDS => sel.iter().map(|&r| self.u[r].clone()).product(),
                        _ => { obs.skipped = true; return; }
                    };
                    self.put_u(d, r, obs);
                }
                // ---- exports / queries -------------------------------------------------------------
                "u.to_str" => {
                    let r = s.int("r") as u32;
                    let txt = self.u[a].to_str_radix(r);
                    dg.str(&txt);
                    obs.texts.push((txt, r, false));
                }
                "u.to_str_seq" => {
                    // several conversions of the same value in a row, radices that share internal tables
                    for r in radix_sequence(k) {
                        if f == 0 {
                            let txt = self.u[a].to_str_radix(r);
                            dg.str(&txt);
                            obs.texts.push((txt, r, false));
                        } else {
                            dg.bytes(&self.u[a].to_radix_le(r));
                        }
                    }
                }
                "u.fmt" => {
                    let x = &self.u[a];
                    let (txt, r, up) = match f {
                        0 => (format!("{}", x), 10, false),
                        1 => (format!("{:x}", x), 16, false),
                        2 => (format!("{:X}", x), 16, true),
                        3 => (format!("{:o}", x), 8, false),
                        4 => (format!("{:b}", x), 2, false),
                        5 => (format!("{:?}", x), 10, false),
                        6 => (format!("{:#x}", x), 0, false),
                        7 => (format!("{:+}", x), 0, false),
                        8 => (format!("{:>40}", x), 0, false),
                        9 => (format!("{:<#30b}", x), 0, false),
                        10 => (format!("{:^+25o}", x), 0, false),
                        11 => (format!("{:012X}", x), 0, true),
                        13 => (format!("{:\u{2665}<9}", x), u32::MAX, false),
                        14 => (format!("{:\u{e9}^+31x}", x), u32::MAX, false),
                        15 => (format!("{:\u{2192}>#27b}", x), u32::MAX, false),
                        16 => (format!("{:\u{1f600}<70}", x), u32::MAX, false),
                        17 => (format!("{:\u{2665}^6o}", x), u32::MAX, false),
                        _ => (format!("{:#034x}", x), 0, false),
                    };
                    dg.str(&txt);
                    obs.texts.push((txt, r, up));
                }
                "u.to_radix" => {
                    let r = s.int("r") as u32;
                    let v = if f == 0 { self.u[a].to_radix_le(r) } else { self.u[a].to_radix_be(r) };
                    dg.bytes(&v);
                }
                "u.to_bytes" => {
                    let x = &self.u[a];
                    let v = match f {
                        0 => x.to_bytes_le(),
                        1 => x.to_bytes_be(),
                        2 => num_traits::ToBytes::to_le_bytes(x),
                        4 => num_traits::ToBytes::to_ne_bytes(x),
                        _ => num_traits::ToBytes::to_be_bytes(x),
                    };
                    dg.bytes(&v);
                }
                "u.to_digits" => {
                    let x = &self.u[a];
                    if f == 0 {
                        dg.u32s(&x.to_u32_digits());
                    } else {
                        for w in x.to_u64_digits() {
                            dg.u64(w);
                        }
                    }
                }
                "u.to_prim" => {
                    let x = &self.u[a];
                    let v: Option<i128> = match t {
                        0 => x.to_u8().map(|v| v as i128),
                        1 => x.to_u16().map(|v| v as i128),
                        2 => x.to_u32().map(|v| v as i128),
                        3 => x.to_u64().map(|v| v as i128),
                        4 => x.to_u128().map(|v| v as i128),
                        5 => x.to_usize().map(|v| v as i128),
                        6 => x.to_i8().map(|v| v as i128),
                        7 => x.to_i16().map(|v| v as i128),
                        8 => x.to_i32().map(|v| v as i128),
                        9 => x.to_i64().map(|v| v as i128),
                        10 => x.to_i128(),
                        11 => x.to_isize().map(|v| v as i128),
                        12 => x.to_f64().map(|v| v.to_bits() as i128),
                        13 => x.to_f32().map(|v| v.to_bits() as i128),
                        14 => u64::try_from(x).ok().map(|v| v as i128),
                        15 => i128::try_from(x).ok(),
                        16 => u8::try_from(x).ok().map(|v| v as i128),
                        17 => u16::try_from(x).ok().map(|v| v as i128),
                        18 => u32::try_from(x).ok().map(|v| v as i128),
                        19 => u128::try_from(x).ok().map(|v| v as i128),
                        20 => usize::try_from(x).ok().map(|v| v as i128),
                        21 => i8::try_from(x).ok().map(|v| v as i128),
                        22 => i16::try_from(x).ok().map(|v| v as i128),
                        23 => i32::try_from(x).ok().map(|v| v as i128),
                        24 => i64::try_from(x).ok().map(|v| v as i128),
                        25 => isize::try_from(x).ok().map(|v| v as i128),
                        26 => match u64::try_from(x.clone()) { Ok(v) => Some(v as i128), Err(e) => { dg.u64(hash_of(&e.into_original())); None } },
                        _ => match i64::try_from(x.clone()) { Ok(v) => Some(v as i128), Err(e) => { dg.u64(hash_of(&e.into_original())); None } },
                    };
                    dg.u64(v.is_some() as u64);
                    dg.u64(v.unwrap_or(0) as u64);
                    dg.u64((v.unwrap_or(0) >> 64) as u64);
                }
                "u.query" => {
                    let x = &self.u[a];
                    let v: u64 = match f {
                        0 => x.bits(),
                        1 => x.trailing_zeros().unwrap_or(u64::MAX),
                        2 => x.trailing_ones(),
                        3 => x.count_ones(),
                        4 => x.bit(k as u64) as u64,
                        5 => x.is_zero() as u64 + 2 * x.is_one() as u64,
                        6 => match x.cmp(&self.u[b]) { Ordering::Less => 0, Ordering::Equal => 1, Ordering::Greater => 2 },
                        7 => (x == &self.u[b]) as u64,
                        8 => hash_of(x),
                        9 => (x.max(&self.u[b]) == x) as u64 + 2 * ((x.min(&self.u[b])) == x) as u64,
                        11 => { let tz = x.trailing_zeros().unwrap_or(0); x.bit(tz) as u64 + 2 * x.bit(tz + 1) as u64 + 4 * x.bit(tz.saturating_sub(1)) as u64 }
                        12 => x.bit(x.bits()) as u64 + 2 * x.bit(x.bits().saturating_sub(1)) as u64 + 4 * x.bit(u64::MAX) as u64,
                        _ => x.is_even() as u64,
                    };
                    dg.u64(v);
                }
                other => panic!("nbsim: unknown op {other}"),
            }
        } else {
            let (d, a, b, c) = (self.ri(s, "d"), self.ri(s, "a"), self.ri(s, "b"), self.ri(s, "c"));
            match op {
                "i.new" => {
                    let x = BigInt::new(sign_of(s.int("sg")), s.list32("v"));
                    self.put_i(d, x, obs);
                }
                "i.from_slice" => {
                    let x = BigInt::from_slice(sign_of(s.int("sg")), &s.list32("v"));
                    self.put_i(d, x, obs);
                }
                "i.assign_slice" => {
                    obs.wrote_i |= 1 << d;
                    self.i[d].assign_from_slice(sign_of(s.int("sg")), &s.list32("v"));
                }
                "i.from_biguint" => {
                    let src = s.us("a") % NU;
                    let m = self.take_u(src, mv, obs);
                    let x = BigInt::from_biguint(sign_of(s.int("sg")), m);
                    self.put_i(d, x, obs);
                }
                "i.from_u" => {
                    let src = s.us("a") % NU;
                    let x = match f {
                        0 => BigInt::from(self.u[src].clone()),
                        1 => self.u[src].to_bigint().unwrap(),
                        _ => self.i[a].to_bigint().unwrap(),
                    };
                    self.put_i(d, x, obs);
                }
                "i.from_bytes" => {
                    let bytes = s.list8("v");
                    let sg = sign_of(s.int("sg"));
                    let x = match f {
                        0 => BigInt::from_bytes_le(sg, &bytes),
                        1 => BigInt::from_bytes_be(sg, &bytes),
                        2 => BigInt::from_signed_bytes_le(&bytes),
                        3 => BigInt::from_signed_bytes_be(&bytes),
                        4 => <BigInt as num_traits::FromBytes>::from_le_bytes(&bytes),
                        6 => <BigInt as num_traits::FromBytes>::from_ne_bytes(&bytes),
                        _ => <BigInt as num_traits::FromBytes>::from_be_bytes(&bytes),
                    };
                    self.put_i(d, x, obs);
                }
                "i.from_radix" => {
                    let bytes = s.list8("v");
                    let r = s.int("r") as u32;
                    let sg = sign_of(s.int("sg"));
                    let x = if f == 0 { BigInt::from_radix_le(sg, &bytes, r) } else { BigInt::from_radix_be(sg, &bytes, r) };
                    match x {
                        Some(x) => self.put_i(d, x, obs),
                        None => obs.none = true,
                    }
                }
                "i.parse" => {
                    let r = s.int("r") as u32;
                    let txt = s.str("s");
                    let x = match f {
                        0 => BigInt::from_str_radix(txt, r).ok(),
                        1 => BigInt::parse_bytes(txt.as_bytes(), r),
                        _ => txt.parse::<BigInt>().ok(),
                    };
                    match x {
                        Some(x) => self.put_i(d, x, obs),
                        None => obs.none = true,
                    }
                }
                "i.from_prim" => {
                    let x: Option<BigInt> = match f {
                        0 => Some(with_ty!(t, k, x => BigInt::from(x))),
                        1 => with_ty!(t, k, x => x.to_bigint()),
                        2 => Some(BigInt::from(k & 1 == 1)),
                        3 => (f64::from_bits(k as u64)).to_bigint(),
                        4 => (f32::from_bits(k as u32)).to_bigint(),
                        5 => BigInt::from_i128(k),
                        6 => BigInt::from_u128(k as u128),
                        _ => BigInt::from_i64(k as i64),
                    };
                    match x {
                        Some(x) => self.put_i(d, x, obs),
                        None => obs.none = true,
                    }
                }
                "i.from_f64" => {
                    let x = f64::from_bits(k as u64);
                    match BigInt::from_f64(x) {
                        Some(v) => self.put_i(d, v, obs),
                        None => obs.none = true,
                    }
                }
                "i.const" => {
                    let x = match f {
                        0 => BigInt::ZERO,
                        1 => BigInt::zero(),
                        2 => BigInt::one(),
                        3 => -BigInt::one(),
                        _ => BigInt::default(),
                    };
                    self.put_i(d, x, obs);
                }
                "i.rand" => match rand_i(f, &self.i[a], &self.i[b], &s.list32("v")) {
                    Some(x) => self.put_i(d, x, obs),
                    None => obs.skipped = true,
                },
                "i.arrive" => {
                    let x: Option<BigInt> = arrive_i(f, k, s, obs);
                    match x {
                        Some(x) => self.put_i(d, x, obs),
                        None => obs.none = true,
                    }
                }
                "i.bin" => {
                    macro_rules! forms {
                        ($opx:tt) => {{
                            match f {
                                0 => &self.i[a] $opx &self.i[b],
                                1 => { let x = self.take_i(a, mv && a != b, obs); x $opx &self.i[b] }
                                2 => { let y = self.take_i(b, mv && a != b, obs); &self.i[a] $opx y }
                                _ => { let x = self.take_i(a, mv && a != b, obs); let y = self.take_i(b, mv, obs); x $opx y }
                            }
                        }};
                    }
                    let r = match o {
                        "add" => forms!(+),
                        "sub" => forms!(-),
                        "mul" => forms!(*),
                        "div" => forms!(/),
                        "rem" => forms!(%),
                        "and" => forms!(&),
                        "or" => forms!(|),
                        _ => forms!(^),
                    };
                    self.put_i(d, r, obs);
                }
                "i.asn" => {
                    obs.wrote_i |= 1 << d;
                    macro_rules! asn {
                        ($opx:tt) => {{
                            if f == 0 {
                                if d == b {
                                    let y = self.i[b].clone();
                                    self.i[d] $opx &y;
                                } else {
                                    let (x, y) = two_mut(&mut self.i, d, b);
                                    *x $opx &*y;
                                }
                            } else {
                                let y = self.take_i(b, mv && d != b, obs);
                                self.i[d] $opx y;
                            }
                        }};
                    }
                    match o {
                        "add" => asn!(+=),
                        "sub" => asn!(-=),
                        "mul" => asn!(*=),
                        "div" => asn!(/=),
                        "rem" => asn!(%=),
                        "and" => asn!(&=),
                        "or" => asn!(|=),
                        _ => asn!(^=),
                    }
                }
                "i.sc" => {
                    with_ty!(t, k, x => {
                        macro_rules! sc {
                            ($opx:tt, $asg:tt) => {{
                                match f {
                                    0 => { let r = &self.i[a] $opx x; self.put_i(d, r, obs) }
                                    1 => { let v = self.take_i(a, mv, obs); let r = v $opx x; self.put_i(d, r, obs) }
                                    2 => { let r = x $opx &self.i[a]; self.put_i(d, r, obs) }
                                    3 => { let v = self.take_i(a, mv, obs); let r = x $opx v; self.put_i(d, r, obs) }
                                    5 => { let r = &self.i[a] $opx &x; self.put_i(d, r, obs) }
                                    6 => { let r = &x $opx &self.i[a]; self.put_i(d, r, obs) }
                                    7 => { let v = self.take_i(a, mv, obs); let r = v $opx &x; self.put_i(d, r, obs) }
                                    8 => { let v = self.take_i(a, mv, obs); let r = &x $opx v; self.put_i(d, r, obs) }
                                    _ => { obs.wrote_i |= 1 << d; self.i[d] $asg x; }
                                }
                            }};
                        }
                        match o {
                            "add" => sc!(+, +=),
                            "sub" => sc!(-, -=),
                            "mul" => sc!(*, *=),
                            "div" => sc!(/, /=),
                            _ => sc!(%, %=),
                        }
                    });
                }
                "i.shl" | "i.shr" => {
                    let left = op == "i.shl";
                    with_ty!(t, k, x => {
                        match f {
                            0 => { let r = if left { &self.i[a] << x } else { &self.i[a] >> x }; self.put_i(d, r, obs) }
                            1 => { let v = self.take_i(a, mv, obs); let r = if left { v << x } else { v >> x }; self.put_i(d, r, obs) }
                            2 => { obs.wrote_i |= 1 << d; if left { self.i[d] <<= x } else { self.i[d] >>= x } }
                            3 => { let r = if left { &self.i[a] << &x } else { &self.i[a] >> &x }; self.put_i(d, r, obs) }
                            5 => { let v = self.take_i(a, mv, obs); let r = if left { v << &x } else { v >> &x }; self.put_i(d, r, obs) }
                            _ => { obs.wrote_i |= 1 << d; if left { self.i[d] <<= &x } else { self.i[d] >>= &x } }
                        }
                    });
                }
                "i.unary" => {
                    let r = match (o, f) {
                        ("neg", 0) => -&self.i[a],
                        ("neg", _) => { let v = self.take_i(a, mv, obs); -v }
                        ("not", 0) => !&self.i[a],
                        ("not", _) => { let v = self.take_i(a, mv, obs); !v }
                        ("abs", _) => self.i[a].abs(),
                        ("signum", _) => self.i[a].signum(),
                        _ => self.i[a].clone(),
                    };
                    self.put_i(d, r, obs);
                }
                "i.set_bit" => {
                    obs.wrote_i |= 1 << d;
                    self.i[d].set_bit(k as u64, f != 0);
                }
                "i.set_zero" => {
                    obs.wrote_i |= 1 << d;
                    self.i[d].set_zero();
                }
                "i.set_one" => {
                    obs.wrote_i |= 1 << d;
                    self.i[d].set_one();
                }
                "i.inc" => {
                    obs.wrote_i |= 1 << d;
                    self.i[d].inc();
                }
                "i.dec" => {
                    obs.wrote_i |= 1 << d;
                    self.i[d].dec();
                }
                "i.clone_from" => {
                    obs.wrote_i |= 1 << d;
                    if d != a {
                        let (x, y) = two_mut(&mut self.i, d, a);
                        x.clone_from(y);
                    }
                }
                "i.clone" => {
                    let x = self.i[a].clone();
                    self.put_i(d, x, obs);
                }
                "i.swap" => {
                    obs.wrote_i |= (1 << d) | (1 << a);
                    self.i.swap(d, a);
                }
                "i.take" => {
                    let x = self.take_i(a, true, obs);
                    self.put_i(d, x, obs);
                }
                "i.pow" => {
                    let r = match f {
                        0 => with_uty!(t.min(5), k, x => Pow::pow(&self.i[a], x)),
                        1 => { let v = self.take_i(a, mv, obs); with_uty!(t.min(5), k, x => Pow::pow(v, x)) }
                        2 => with_uty!(t.min(5), k, x => Pow::pow(&self.i[a], &x)),
                        4 => { let v = self.take_i(a, mv, obs); with_uty!(t.min(5), k, x => Pow::pow(v, &x)) }
                        _ => BigInt::pow(&self.i[a], k as u32),
                    };
                    self.put_i(d, r, obs);
                }
                "i.modpow" => {
                    let r = self.i[a].modpow(&self.i[b], &self.i[c]);
                    self.put_i(d, r, obs);
                }
                "i.modinv" => match self.i[a].modinv(&self.i[b]) {
                    Some(r) => self.put_i(d, r, obs),
                    None => obs.none = true,
                },
                "i.root" => {
                    let n = k as u32;
                    let r = match (o, f) {
                        ("sqrt", 0) => self.i[a].sqrt(),
                        ("sqrt", _) => Roots::sqrt(&self.i[a]),
                        ("cbrt", 0) => self.i[a].cbrt(),
                        ("cbrt", _) => Roots::cbrt(&self.i[a]),
                        (_, 0) => self.i[a].nth_root(n),
                        _ => Roots::nth_root(&self.i[a], n),
                    };
                    self.put_i(d, r, obs);
                }
                "i.int" => {
                    let (x, y) = (&self.i[a], &self.i[b]);
                    let d2 = (d + 1) % NI;
                    let d3 = (d + 2) % NI;
                    let mut second: Option<BigInt> = None;
                    let mut third: Option<BigInt> = None;
                    let r: Option<BigInt> = match o {
                        "div_rem" => { let (q, r) = x.div_rem(y); second = Some(r); Some(q) }
                        "div_floor" => Some(x.div_floor(y)),
                        "mod_floor" => Some(x.mod_floor(y)),
                        "div_mod_floor" => { let (q, r) = x.div_mod_floor(y); second = Some(r); Some(q) }
                        "div_ceil" => Some(Integer::div_ceil(x, y)),
                        "div_euclid" => Some(Euclid::div_euclid(x, y)),
                        "rem_euclid" => Some(Euclid::rem_euclid(x, y)),
                        "div_rem_euclid" => { let (q, r) = Euclid::div_rem_euclid(x, y); second = Some(r); Some(q) }
                        "next_multiple_of" => {
                            if words(x.magnitude()) + 2 > CAP_WORDS { None } else { Some(x.next_multiple_of(y)) }
                        }
                        "prev_multiple_of" => {
                            if words(x.magnitude()) + 2 > CAP_WORDS { None } else { Some(x.prev_multiple_of(y)) }
                        }
                        "gcd" => Some(x.gcd(y)),
                        "lcm" => Some(x.lcm(y)),
                        "gcd_lcm" => { let (g, l) = x.gcd_lcm(y); second = Some(l); Some(g) }
                        "extended_gcd" => { let e = x.extended_gcd(y); second = Some(e.x); third = Some(e.y); Some(e.gcd) }
                        "extended_gcd_lcm" => { let (e, l) = x.extended_gcd_lcm(y); second = Some(e.x); third = Some(l); Some(e.gcd) }
                        "abs_sub" => Some(x.abs_sub(y)),
                        "is_multiple_of" => { dg.u64(x.is_multiple_of(y) as u64); None }
                        #[allow(deprecated)]
                        "divides" => { dg.u64(x.divides(y) as u64); None }
                        _ => { dg.u64(x.is_even() as u64 + 2 * x.is_odd() as u64 + 4 * x.is_positive() as u64 + 8 * x.is_negative() as u64); None }
                    };
                    if let Some(r) = r {
                        self.put_i(d, r, obs);
                    }
                    if let Some(r2) = second {
                        self.put_i(d2, r2, obs);
                    }
                    if let Some(r3) = third {
                        self.put_i(d3, r3, obs);
                    }
                }
                "i.checked" => {
                    let (x, y) = (&self.i[a], &self.i[b]);
                    let d2 = (d + 1) % NI;
                    let mut second = None;
                    let r = match o {
                        "add" => if f == 0 { x.checked_add(y) } else { CheckedAdd::checked_add(x, y) },
                        "sub" => if f == 0 { x.checked_sub(y) } else { CheckedSub::checked_sub(x, y) },
                        "mul" => if f == 0 { x.checked_mul(y) } else { CheckedMul::checked_mul(x, y) },
                        "div" => if f == 0 { x.checked_div(y) } else { CheckedDiv::checked_div(x, y) },
                        "div_euclid" => CheckedEuclid::checked_div_euclid(x, y),
                        "rem_euclid" => CheckedEuclid::checked_rem_euclid(x, y),
                        _ => CheckedEuclid::checked_div_rem_euclid(x, y).map(|(q, r)| { second = Some(r); q }),
                    };
                    match r {
                        Some(r) => self.put_i(d, r, obs),
                        None => obs.none = true,
                    }
                    if let Some(r2) = second {
                        self.put_i(d2, r2, obs);
                    }
                }
                "i.sum" => {
                    let sel: Vec<usize> = (0..NI).filter(|r| (k >> r) & 1 == 1).collect();
                    let total_words: usize = sel.iter().map(|&r| words(self.i[r].magnitude())).sum();
                    let r: BigInt = match f {
                        0 => sel.iter().map(|&r| &self.i[r]).sum(),
                        1 => sel.iter().map(|&r| self.i[r].clone()).sum(),
                        2 if total_words <= CAP_WORDS => sel.iter().map(|&r| &self.i[r]).product(),
                        3 if total_words <= CAP_WORDS => sel.iter().map(|&r| self.i[r].clone()).product(),
                        _ => { obs.skipped = true; return; }
                    };
                    self.put_i(d, r, obs);
                }
                "i.primrem" => {
                    // BigInt has no `prim %= BigInt`; exercise `prim % &BigInt` / `prim / BigInt`
                    let r: BigInt = with_ty!(t, k, x => {
                        match f { 0 => x % &self.i[b], 1 => x / &self.i[b], 2 => x % self.i[b].clone(), _ => x / self.i[b].clone() }
                    });
                    self.put_i(d, r, obs);
                }
                "i.to_str" => {
                    let r = s.int("r") as u32;
                    let txt = self.i[a].to_str_radix(r);
                    dg.str(&txt);
                    obs.texts.push((txt, r, false));
                }
                "i.to_str_seq" => {
                    for r in radix_sequence(k) {
                        if f == 0 {
                            let txt = self.i[a].to_str_radix(r);
                            dg.str(&txt);
                            obs.texts.push((txt, r, false));
                        } else {
                            let (sg, v) = self.i[a].to_radix_le(r);
                            dg.u64(sg as u64);
                            dg.bytes(&v);
                        }
                    }
                }
                "i.fmt" => {
                    let x = &self.i[a];
                    let (txt, r, up) = match f {
                        0 => (format!("{}", x), 10, false),
                        1 => (format!("{:x}", x), 16, false),
                        2 => (format!("{:X}", x), 16, true),
                        3 => (format!("{:o}", x), 8, false),
                        4 => (format!("{:b}", x), 2, false),
                        5 => (format!("{:?}", x), 10, false),
                        6 => (format!("{:#x}", x), 0, false),
                        7 => (format!("{:+}", x), 0, false),
                        8 => (format!("{:>40}", x), 0, false),
                        9 => (format!("{:<#30b}", x), 0, false),
                        10 => (format!("{:^+25o}", x), 0, false),
                        11 => (format!("{:012X}", x), 0, true),
                        13 => (format!("{:\u{2665}<9}", x), u32::MAX, false),
                        14 => (format!("{:\u{e9}^+31x}", x), u32::MAX, false),
                        15 => (format!("{:\u{2192}>#27b}", x), u32::MAX, false),
                        16 => (format!("{:\u{1f600}<70}", x), u32::MAX, false),
                        17 => (format!("{:\u{2665}^6o}", x), u32::MAX, false),
                        _ => (format!("{:#034x}", x), 0, false),
                    };
                    dg.str(&txt);
                    obs.texts.push((txt, r, up));
                }
                "i.to_radix" => {
                    let r = s.int("r") as u32;
                    let (sg, v) = if f == 0 { self.i[a].to_radix_le(r) } else { self.i[a].to_radix_be(r) };
                    dg.u64(sg as u64);
                    dg.bytes(&v);
                }
                "i.to_bytes" => {
                    let x = &self.i[a];
                    let v = match f {
                        0 => { let (sg, v) = x.to_bytes_le(); dg.u64(sg as u64); v }
                        1 => { let (sg, v) = x.to_bytes_be(); dg.u64(sg as u64); v }
                        2 => x.to_signed_bytes_le(),
                        3 => x.to_signed_bytes_be(),
                        4 => num_traits::ToBytes::to_le_bytes(x),
                        6 => num_traits::ToBytes::to_ne_bytes(x),
                        _ => num_traits::ToBytes::to_be_bytes(x),
                    };
                    dg.bytes(&v);
                }
                "i.to_digits" => {
                    let x = &self.i[a];
                    if f == 0 {
                        let (sg, v) = x.to_u32_digits();
                        dg.u64(sg as u64);
                        dg.u32s(&v);
                    } else {
                        let (sg, v) = x.to_u64_digits();
                        dg.u64(sg as u64);
                        for w in v {
                            dg.u64(w);
                        }
                    }
                }
                "i.to_prim" => {
                    let x = &self.i[a];
                    let v: Option<i128> = match t {
                        0 => x.to_u8().map(|v| v as i128),
                        1 => x.to_u16().map(|v| v as i128),
                        2 => x.to_u32().map(|v| v as i128),
                        3 => x.to_u64().map(|v| v as i128),
                        4 => x.to_u128().map(|v| v as i128),
                        5 => x.to_usize().map(|v| v as i128),
                        6 => x.to_i8().map(|v| v as i128),
                        7 => x.to_i16().map(|v| v as i128),
                        8 => x.to_i32().map(|v| v as i128),
                        9 => x.to_i64().map(|v| v as i128),
                        10 => x.to_i128(),
                        11 => x.to_isize().map(|v| v as i128),
                        12 => x.to_f64().map(|v| v.to_bits() as i128),
                        13 => x.to_f32().map(|v| v.to_bits() as i128),
                        14 => u64::try_from(x).ok().map(|v| v as i128),
                        15 => i128::try_from(x).ok(),
                        16 => u8::try_from(x).ok().map(|v| v as i128),
                        17 => u16::try_from(x).ok().map(|v| v as i128),
                        18 => u32::try_from(x).ok().map(|v| v as i128),
                        19 => u128::try_from(x).ok().map(|v| v as i128),
                        20 => usize::try_from(x).ok().map(|v| v as i128),
                        21 => i8::try_from(x).ok().map(|v| v as i128),
                        22 => i16::try_from(x).ok().map(|v| v as i128),
                        23 => i32::try_from(x).ok().map(|v| v as i128),
                        24 => i64::try_from(x).ok().map(|v| v as i128),
                        25 => isize::try_from(x).ok().map(|v| v as i128),
                        26 => match u64::try_from(x.clone()) { Ok(v) => Some(v as i128), Err(e) => { dg.u64(hash_of(&e.into_original())); None } },
                        _ => match i64::try_from(x.clone()) { Ok(v) => Some(v as i128), Err(e) => { dg.u64(hash_of(&e.into_original())); None } },
                    };
                    dg.u64(v.is_some() as u64);
                    dg.u64(v.unwrap_or(0) as u64);
                    dg.u64((v.unwrap_or(0) >> 64) as u64);
                }
                "i.query" => {
                    let x = &self.i[a];
                    let v: u64 = match f {
                        0 => x.bits(),
                        1 => x.trailing_zeros().unwrap_or(u64::MAX),
                        2 => x.sign() as u64,
                        3 => x.magnitude().count_ones(),
                        4 => x.bit(k as u64) as u64,
                        5 => x.is_zero() as u64 + 2 * x.is_one() as u64,
                        6 => match x.cmp(&self.i[b]) { Ordering::Less => 0, Ordering::Equal => 1, Ordering::Greater => 2 },
                        7 => (x == &self.i[b]) as u64,
                        8 => hash_of(x),
                        9 => (x.max(&self.i[b]) == x) as u64 + 2 * ((x.min(&self.i[b])) == x) as u64,
                        11 => { let tz = x.trailing_zeros().unwrap_or(0); x.bit(tz) as u64 + 2 * x.bit(tz + 1) as u64 + 4 * x.bit(tz.saturating_sub(1)) as u64 }
                        12 => x.bit(x.bits()) as u64 + 2 * x.bit(x.bits().saturating_sub(1)) as u64 + 4 * x.bit(u64::MAX) as u64,
                        _ => x.is_even() as u64,
                    };
                    dg.u64(v);
                }
                other => panic!("nbsim: unknown op {other}"),
            }
            let _ = c;
        }
    }

    /// Digest of the full register state (raw digits, signs).
    pub fn state_digest(&self, dg: &mut Digest) {
        for x in &self.u {
            for w in x.iter_u64_digits() {
                dg.u64(w);
            }
            dg.u64(0xabcd);
        }
        for x in &self.i {
            dg.u64(x.sign() as u64);
            for w in x.iter_u64_digits() {
                dg.u64(w);
            }
            dg.u64(0xabce);
        }
    }
}

/// Three radices (2..=36) chosen by `k` from families that share a "largest power fitting a digit".
fn radix_sequence(k: i128) -> [u32; 3] {
    const FAM: [[u32; 3]; 10] = [
        [3, 9, 27], [9, 3, 27], [6, 36, 6], [36, 6, 36], [5, 25, 5], [2, 4, 16], [8, 32, 2], [10, 7, 10], [27, 9, 3], [25, 5, 35],
    ];
    FAM[(k.unsigned_abs() % 10) as usize]
}

fn two_mut<T>(v: &mut [T], x: usize, y: usize) -> (&mut T, &mut T) {
    assert!(x != y);
    if x < y {
        let (l, r) = v.split_at_mut(y);
        (&mut l[x], &mut r[0])
    } else {
        let (l, r) = v.split_at_mut(x);
        (&mut r[0], &mut l[y])
    }
}

/// Reset the destination registers of a panicked step (Rust promises nothing about a `&mut`
/// receiver after an unwind): registers the step writes are re-initialised to zero.
pub fn reset_written(m: &mut Machine, s: &Step) {
    let op = s.op.as_str();
    let d = s.us("d");
    if op.starts_with("u.") {
        m.u[d % NU] = BigUint::default();
        if matches!(op, "u.int" | "u.checked") {
            m.u[(d + 1) % NU] = BigUint::default();
        }
        if op == "u.swap" {
            m.u[s.us("a") % NU] = BigUint::default();
        }
    } else {
        m.i[d % NI] = BigInt::default();
        if matches!(op, "i.int" | "i.checked") {
            m.i[(d + 1) % NI] = BigInt::default();
            m.i[(d + 2) % NI] = BigInt::default();
        }
        if op == "i.swap" {
            m.i[s.us("a") % NI] = BigInt::default();
        }
    }
}

// Arrivals that exist only with the std-only optional features (arbitrary, quickcheck).
#[cfg(feature = "stdopt")]
fn arrive_std_u(f: i128, k: i128, bytes: &[u8], _obs: &mut Obs) -> Option<BigUint> {
    match f {
        2 => {
            let mut u = arbitrary::Unstructured::new(bytes);
            <BigUint as arbitrary::Arbitrary>::arbitrary(&mut u).ok()
        }
        3 => <BigUint as arbitrary::Arbitrary>::arbitrary_take_rest(arbitrary::Unstructured::new(bytes)).ok(),
        4 => {
            let mut g = quickcheck::Gen::from_size_and_seed((k as usize % 40) + 1, bytes.len() as u64 * 7919 + k as u64);
            Some(<BigUint as quickcheck::Arbitrary>::arbitrary(&mut g))
        }
        _ => {
            // a shrink candidate of an arbitrary value
            let mut g = quickcheck::Gen::from_size_and_seed((k as usize % 40) + 1, bytes.len() as u64 * 104729 + k as u64);
            let x = <BigUint as quickcheck::Arbitrary>::arbitrary(&mut g);
            quickcheck::Arbitrary::shrink(&x).nth(bytes.len() % 7)
        }
    }
}
#[cfg(feature = "stdopt")]
fn arrive_std_i(f: i128, k: i128, bytes: &[u8], _obs: &mut Obs) -> Option<BigInt> {
    match f {
        2 => {
            let mut u = arbitrary::Unstructured::new(bytes);
            <BigInt as arbitrary::Arbitrary>::arbitrary(&mut u).ok()
        }
        3 => <BigInt as arbitrary::Arbitrary>::arbitrary_take_rest(arbitrary::Unstructured::new(bytes)).ok(),
        4 => {
            let mut g = quickcheck::Gen::from_size_and_seed((k as usize % 40) + 1, bytes.len() as u64 * 7919 + k as u64);
            Some(<BigInt as quickcheck::Arbitrary>::arbitrary(&mut g))
        }
        _ => {
            let mut g = quickcheck::Gen::from_size_and_seed((k as usize % 40) + 1, bytes.len() as u64 * 104729 + k as u64);
            let x = <BigInt as quickcheck::Arbitrary>::arbitrary(&mut g);
            quickcheck::Arbitrary::shrink(&x).nth(bytes.len() % 7)
        }
    }
}
#[cfg(not(feature = "stdopt"))]
fn arrive_std_u(_f: i128, _k: i128, _bytes: &[u8], obs: &mut Obs) -> Option<BigUint> {
    obs.skipped = true;
    None
}
#[cfg(not(feature = "stdopt"))]
fn arrive_std_i(_f: i128, _k: i128, _bytes: &[u8], obs: &mut Obs) -> Option<BigInt> {
    obs.skipped = true;
    None
}

// Arrivals through the RNG (f = 0) and the serde token deserialiser (f = 1): need the `opt` features.
#[cfg(feature = "opt")]
fn arrive_u(f: i128, k: i128, s: &Step, obs: &mut Obs) -> Option<BigUint> {
    match f {
        0 => {
            use num_bigint::RandBigInt;
            let mut r = crate::seams::SimRng::from_words(&s.list32("v"));
            Some(r.gen_biguint(k as u64))
        }
        1 => {
            let d: Vec<u64> = s.list("v").to_vec();
            let mut toks = vec![crate::scn_c17::Tok::Seq(Some(d.len()))];
            toks.extend(d.iter().map(|&x| crate::scn_c17::Tok::U32(x as u32)));
            toks.push(crate::scn_c17::Tok::End);
            crate::scn_c17::de_tokens::<BigUint>(toks, crate::scn_c17::HintMode::Exact, None).0.ok()
        }
        _ => arrive_std_u(f, k, &s.list8("v"), obs),
    }
}
#[cfg(feature = "opt")]
fn arrive_i(f: i128, k: i128, s: &Step, obs: &mut Obs) -> Option<BigInt> {
    match f {
        0 => {
            use num_bigint::RandBigInt;
            let mut r = crate::seams::SimRng::from_words(&s.list32("v"));
            Some(r.gen_bigint(k as u64))
        }
        1 => {
            let dd: Vec<u64> = s.list("v").to_vec();
            let mut toks = vec![crate::scn_c17::Tok::Tuple(2), crate::scn_c17::Tok::I8(s.int("sg").clamp(-1, 1) as i8), crate::scn_c17::Tok::Seq(Some(dd.len()))];
            toks.extend(dd.iter().map(|&x| crate::scn_c17::Tok::U32(x as u32)));
            toks.push(crate::scn_c17::Tok::End);
            toks.push(crate::scn_c17::Tok::End);
            crate::scn_c17::de_tokens::<BigInt>(toks, crate::scn_c17::HintMode::Exact, None).0.ok()
        }
        _ => arrive_std_i(f, k, &s.list8("v"), obs),
    }
}
#[cfg(not(feature = "opt"))]
fn arrive_u(_f: i128, _k: i128, _s: &Step, obs: &mut Obs) -> Option<BigUint> {
    obs.skipped = true;
    None
}
#[cfg(not(feature = "opt"))]
fn arrive_i(_f: i128, _k: i128, _s: &Step, obs: &mut Obs) -> Option<BigInt> {
    obs.skipped = true;
    None
}

// Bounded random sampling with register operands (the "empty or inverted random range" failure class).
#[cfg(feature = "opt")]
fn rand_u(f: i128, a: &BigUint, b: &BigUint, words: &[u32]) -> Option<BigUint> {
    use num_bigint::{RandBigInt, UniformBigUint};
    use rand::distributions::uniform::UniformSampler;
    use rand::distributions::{Distribution, Uniform};
    use rand::Rng;
    let mut r = crate::seams::SimRng::from_words(words);
    Some(match f {
        0 => r.gen_biguint_below(a),
        1 => r.gen_biguint_range(a, b),
        2 => Uniform::new(a, b).sample(&mut r),
        3 => Uniform::new_inclusive(a, b).sample(&mut r),
        4 => UniformBigUint::sample_single(a, b, &mut r),
        5 => r.gen_range(a.clone()..b.clone()),
        6 => r.gen_range(a.clone()..=b.clone()),
        _ => UniformBigUint::new(a, b).sample(&mut r),
    })
}
#[cfg(feature = "opt")]
fn rand_i(f: i128, a: &BigInt, b: &BigInt, words: &[u32]) -> Option<BigInt> {
    use num_bigint::{RandBigInt, UniformBigInt};
    use rand::distributions::uniform::UniformSampler;
    use rand::distributions::{Distribution, Uniform};
    use rand::Rng;
    let mut r = crate::seams::SimRng::from_words(words);
    Some(match f {
        0 => BigInt::from(r.gen_biguint_below(a.magnitude())),
        1 => r.gen_bigint_range(a, b),
        2 => Uniform::new(a, b).sample(&mut r),
        3 => Uniform::new_inclusive(a, b).sample(&mut r),
        4 => UniformBigInt::sample_single(a, b, &mut r),
        5 => r.gen_range(a.clone()..b.clone()),
        6 => r.gen_range(a.clone()..=b.clone()),
        _ => UniformBigInt::new(a, b).sample(&mut r),
    })
}
#[cfg(not(feature = "opt"))]
fn rand_u(_f: i128, _a: &BigUint, _b: &BigUint, _w: &[u32]) -> Option<BigUint> {
    None
}
#[cfg(not(feature = "opt"))]
fn rand_i(_f: i128, _a: &BigInt, _b: &BigInt, _w: &[u32]) -> Option<BigInt> {
    None
}
