//! C09 (a): the digit iterators under two-ended consumption, against a VecDeque model.
//! The "schedule" searched here is the interleaving of front and back consumers.

use crate::plan::{fnv, Digest, Plan, Step};
use crate::prng::Prng;
use crate::refnat::RefNat;
use crate::sup::{at_step, catch, RunResult};
use num_bigint::{BigInt, BigUint, Sign};
use std::collections::VecDeque;

const P: &str = "C09";

pub fn gen(rng: &mut Prng, plan: &mut Plan) {
    // value shape
    let native = match rng.below(10) {
        0 => 0,
        1..=4 => 1,
        5..=6 => 2,
        _ => rng.range(3, 6),
    } as usize;
    let mut v: Vec<u32> = Vec::new();
    for i in 0..native {
        let top = i + 1 == native;
        let lo = match rng.below(4) {
            0 => 0,
            1 => u32::MAX,
            _ => rng.next_u32(),
        };
        let hi = match rng.below(4) {
            0 => 0,
            1 => u32::MAX,
            _ => rng.next_u32(),
        };
        if top {
            // top native digit: high half zero or not, but the digit itself non-zero
            if rng.chance(1, 2) {
                v.push(if lo == 0 { 1 + rng.below(9) as u32 } else { lo });
            } else {
                v.push(lo);
                v.push(if hi == 0 { 1 } else { hi });
            }
        } else {
            v.push(lo);
            v.push(hi);
        }
    }
    // occasionally redundant zero words on top (constructor must strip them)
    if rng.chance(1, 8) {
        for _ in 0..rng.range(1, 3) {
            v.push(0);
        }
    }
    let kind = rng.below(4); // 0 U32/BigUint 1 U64/BigUint 2 U32/BigInt 3 U64/BigInt
    plan.cfg = Step::new("cfg")
        .i("kind", kind as i128)
        .i("neg", rng.below(2) as i128)
        .l32("v", &v);
    let nsteps = rng.range(1, 14);
    let ops = [
        "next", "next_back", "nth", "nth_back", "len", "size_hint", "take", "take_back", "step2", "skip_next", "alt",
    ];
    let w = [30u32, 30, 10, 10, 6, 4, 5, 5, 4, 4, 3];
    for _ in 0..nsteps {
        let op = ops[rng.weighted(&w)];
        let mut s = Step::new(op);
        if matches!(op, "nth" | "nth_back" | "take" | "take_back" | "step2" | "skip_next" | "alt") {
            let k: i128 = if rng.chance(1, 12) && op != "alt" && op != "step2" {
                // far beyond the end: index arithmetic at the edge of usize
                *rng.pick(&[usize::MAX as i128, usize::MAX as i128 - 1, (usize::MAX / 2) as i128, (usize::MAX / 2) as i128 + 1, 1 << 32, 13])
            } else {
                rng.below(4) as i128
            };
            s = s.i("k", k);
        }
        plan.steps.push(s);
    }
    // keep polling after the end sometimes (fused contract)
    if rng.chance(1, 3) {
        for _ in 0..rng.range(1, 3) {
            plan.steps.push(Step::new(if rng.chance(1, 2) { "next" } else { "next_back" }));
        }
    }
    if rng.chance(3, 4) {
        let t = *rng.pick(&[
            "last", "count", "collect", "rev_collect", "fold", "rfold", "max", "min",
        ]);
        plan.steps.push(Step::new(t));
    }
}

trait Word: Copy + Eq + std::fmt::Debug + Ord {
    fn as_u64(self) -> u64;
}
impl Word for u32 {
    fn as_u64(self) -> u64 {
        self as u64
    }
}
impl Word for u64 {
    fn as_u64(self) -> u64 {
        self
    }
}

fn drive<T: Word, I>(
    mut it: Option<I>,
    mut model: VecDeque<T>,
    plan: &Plan,
    api: &str,
    res: &mut RunResult,
    dg: &mut Digest,
) where
    I: Iterator<Item = T> + DoubleEndedIterator + ExactSizeIterator,
{
    let mut front = false;
    let mut back = false;
    for (si, s) in plan.steps.iter().enumerate() {
        at_step(si);
        res.steps += 1;
        let op = s.op.as_str();
        let k = s.us("k");
        macro_rules! bad {
            ($oracle:expr, $($arg:tt)*) => {{
                res.violate(P, $oracle, &format!("{api}::{op}"), si, format!($($arg)*));
                return;
            }};
        }
        let terminal = matches!(
            op,
            "last" | "count" | "collect" | "rev_collect" | "fold" | "rfold" | "max" | "min"
        );
        if it.is_none() {
            continue; // iterator already consumed by a terminal operation
        }
        if terminal {
            let i = it.take().unwrap();
            let partially = front || back;
            if partially {
                res.reach("terminal_after_partial");
            }
            let out = catch(move || match op {
                "last" => (i.last().map(|x| x.as_u64()), 0u64, vec![]),
                "count" => (None, i.count() as u64, vec![]),
                "collect" => (None, 0, i.map(|x| x.as_u64()).collect::<Vec<u64>>()),
                "rev_collect" => (None, 0, i.rev().map(|x| x.as_u64()).collect::<Vec<u64>>()),
                "fold" => (
                    None,
                    i.fold(7u64, |a, x| a.wrapping_mul(31).wrapping_add(x.as_u64())),
                    vec![],
                ),
                "rfold" => (
                    None,
                    i.rfold(7u64, |a, x| a.wrapping_mul(31).wrapping_add(x.as_u64())),
                    vec![],
                ),
                "max" => (i.max().map(|x| x.as_u64()), 0, vec![]),
                _ => (i.min().map(|x| x.as_u64()), 0, vec![]),
            });
            let (o, n, v) = match out {
                Ok(t) => t,
                Err(m) => bad!("iter-panic", "panicked: {m}"),
            };
            let m: Vec<u64> = model.iter().map(|x| x.as_u64()).collect();
            let (eo, en, ev): (Option<u64>, u64, Vec<u64>) = match op {
                "last" => (m.last().copied(), 0, vec![]),
                "count" => (None, m.len() as u64, vec![]),
                "collect" => (None, 0, m.clone()),
                "rev_collect" => (None, 0, m.iter().rev().copied().collect()),
                "fold" => (
                    None,
                    m.iter().fold(7u64, |a, &x| a.wrapping_mul(31).wrapping_add(x)),
                    vec![],
                ),
                "rfold" => (
                    None,
                    m.iter().rev().fold(7u64, |a, &x| a.wrapping_mul(31).wrapping_add(x)),
                    vec![],
                ),
                "max" => (m.iter().max().copied(), 0, vec![]),
                _ => (m.iter().min().copied(), 0, vec![]),
            };
            dg.u64(o.unwrap_or(u64::MAX - 1));
            dg.u64(n);
            for x in &v {
                dg.u64(*x);
            }
            if (o, n, &v) != (eo, en, &ev) {
                bad!(
                    "iter-terminal",
                    "got ({o:?},{n},{v:x?}) want ({eo:?},{en},{ev:x?}); remaining model {m:x?}"
                );
            }
            continue;
        }
        let i = it.as_mut().unwrap();
        let r = catch(|| -> (Option<Option<u64>>, Vec<u64>, Option<(usize, Option<usize>)>) {
            match op {
                "next" => (Some(i.next().map(|x| x.as_u64())), vec![], None),
                "next_back" => (Some(i.next_back().map(|x| x.as_u64())), vec![], None),
                "nth" => (Some(i.nth(k).map(|x| x.as_u64())), vec![], None),
                "nth_back" => (Some(i.nth_back(k).map(|x| x.as_u64())), vec![], None),
                "len" => (None, vec![], Some((i.len(), None))),
                "size_hint" => (None, vec![], Some(i.size_hint())),
                "take" => (
                    None,
                    i.by_ref().take(k).map(|x| x.as_u64()).collect(),
                    None,
                ),
                "take_back" => (
                    None,
                    i.by_ref().rev().take(k).map(|x| x.as_u64()).collect(),
                    None,
                ),
                // two items of every (k+1)-th element: step_by drives nth()
                "step2" => (
                    None,
                    i.by_ref().step_by(k + 1).take(2).map(|x| x.as_u64()).collect(),
                    None,
                ),
                // skip(k) then one item: drives nth() / advance
                "skip_next" => (Some(i.by_ref().skip(k).next().map(|x| x.as_u64())), vec![], None),
                // k+1 rounds of "one from the front, one from the back": the cursors meet in the middle
                _ => {
                    let mut v = vec![];
                    for _ in 0..=k {
                        if let Some(x) = i.next() {
                            v.push(x.as_u64());
                        }
                        if let Some(x) = i.next_back() {
                            v.push(x.as_u64());
                        }
                    }
                    (None, v, None)
                }
            }
        });
        let (item, items, sz) = match r {
            Ok(t) => t,
            Err(m) => bad!("iter-panic", "panicked: {m}"),
        };
        // model
        let mut e_item = None;
        let mut e_items = vec![];
        let mut e_sz = None;
        match op {
            "next" => {
                front = true;
                e_item = Some(model.pop_front().map(|x| x.as_u64()));
            }
            "next_back" => {
                back = true;
                e_item = Some(model.pop_back().map(|x| x.as_u64()));
            }
            "nth" => {
                front = true;
                for _ in 0..k.min(model.len()) {
                    model.pop_front();
                }
                e_item = Some(model.pop_front().map(|x| x.as_u64()));
            }
            "nth_back" => {
                back = true;
                for _ in 0..k.min(model.len()) {
                    model.pop_back();
                }
                e_item = Some(model.pop_back().map(|x| x.as_u64()));
            }
            "len" => e_sz = Some((model.len(), None)),
            "size_hint" => e_sz = Some((model.len(), Some(model.len()))),
            "take" => {
                front |= k > 0;
                for _ in 0..k.min(model.len()) {
                    if let Some(x) = model.pop_front() {
                        e_items.push(x.as_u64());
                    }
                }
            }
            "take_back" => {
                back |= k > 0;
                for _ in 0..k.min(model.len()) {
                    if let Some(x) = model.pop_back() {
                        e_items.push(x.as_u64());
                    }
                }
            }
            "step2" => {
                front = true;
                // step_by(n): first element, then every n-th after it; take(2)
                if let Some(x) = model.pop_front() {
                    e_items.push(x.as_u64());
                    for _ in 0..k.min(model.len()) {
                        model.pop_front();
                    }
                    if let Some(y) = model.pop_front() {
                        e_items.push(y.as_u64());
                    }
                }
            }
            "skip_next" => {
                front = true;
                for _ in 0..k.min(model.len()) {
                    model.pop_front();
                }
                e_item = Some(model.pop_front().map(|x| x.as_u64()));
            }
            _ => {
                front = true;
                back = true;
                for _ in 0..=k {
                    if let Some(x) = model.pop_front() {
                        e_items.push(x.as_u64());
                    }
                    if let Some(x) = model.pop_back() {
                        e_items.push(x.as_u64());
                    }
                }
            }
        }
        if let Some(Some(x)) = item {
            dg.u64(x);
        } else {
            dg.u64(0xdead);
        }
        for x in &items {
            dg.u64(*x);
        }
        if let Some((a, b)) = sz {
            dg.u64(a as u64);
            dg.u64(b.map_or(u64::MAX, |x| x as u64));
        }
        if item != e_item || items != e_items || sz != e_sz {
            bad!(
                "iter-step",
                "got item={item:x?} items={items:x?} size={sz:?}; model says item={e_item:x?} items={e_items:x?} size={e_sz:?}"
            );
        }
        // exact-size contract after every step
        let l = match catch(|| (i.len(), i.size_hint())) {
            Ok(t) => t,
            Err(m) => bad!("iter-panic", "len() panicked: {m}"),
        };
        if l.0 != model.len() || l.1 != (model.len(), Some(model.len())) {
            bad!(
                "iter-len",
                "after the step len()={} size_hint()={:?}, model has {} items left",
                l.0,
                l.1,
                model.len()
            );
        }
        if model.is_empty() {
            res.reach("polled_at_end");
        }
    }
    if front && back {
        res.reach("two_ended");
        res.nontrivial = true;
    }
}

pub fn exec(plan: &Plan) -> RunResult {
    let mut res = RunResult::default();
    let mut dg = Digest::new();
    let v = plan.cfg.list32("v");
    let kind = plan.cfg.int("kind");
    let neg = plan.cfg.int("neg") != 0;
    let model32 = RefNat::from_u32s(&v).0;
    let model64 = RefNat::from_u32s(&v).to_u64s();
    let top_hi_zero = model32.len() % 2 == 1;
    let big = match catch(|| BigUint::new(v.clone())) {
        Ok(b) => b,
        Err(m) => {
            res.violate("C14", "unexpected-panic", "BigUint::new", 0, m);
            return res;
        }
    };
    let bigi = BigInt::from_biguint(if neg { Sign::Minus } else { Sign::Plus }, big.clone());
    let api = ["BigUint::iter_u32_digits", "BigUint::iter_u64_digits", "BigInt::iter_u32_digits", "BigInt::iter_u64_digits"][kind as usize & 3];
    match kind & 3 {
        0 => drive(Some(big.iter_u32_digits()), model32.iter().copied().collect(), plan, api, &mut res, &mut dg),
        1 => drive(Some(big.iter_u64_digits()), model64.iter().copied().collect(), plan, api, &mut res, &mut dg),
        2 => drive(Some(bigi.iter_u32_digits()), model32.iter().copied().collect(), plan, api, &mut res, &mut dg),
        _ => drive(Some(bigi.iter_u64_digits()), model64.iter().copied().collect(), plan, api, &mut res, &mut dg),
    }
    // distinct case = (kind, value shape, operation sequence)
    let mut key = format!("{}|{}|{}|", kind, model64.len(), top_hi_zero);
    for s in &plan.steps {
        key.push_str(&s.render());
        key.push(';');
    }
    if res.nontrivial || res.reach.contains_key("terminal_after_partial") {
        res.nontrivial = true;
        res.cover.insert(fnv(key.as_bytes()));
    }
    res.digest = dg.0;
    res
}
