//! Supervision: panic capture, fatal-signal reporting, hang watchdog, per-run results.

use crate::plan::json_str;
use std::cell::RefCell;
use std::collections::{BTreeMap, BTreeSet};
use std::panic::{self, AssertUnwindSafe};
use std::sync::atomic::{AtomicBool, AtomicU64, Ordering};

#[derive(Clone, Debug)]
pub struct Violation {
    pub property: &'static str,
    pub oracle: String,
    pub api: String,
    pub step: usize,
    pub detail: String,
}

impl Violation {
    pub fn json(&self) -> String {
        format!(
            "{{\"property\":{},\"oracle\":{},\"api\":{},\"step\":{},\"detail\":{}}}",
            json_str(self.property),
            json_str(&self.oracle),
            json_str(&self.api),
            self.step,
            json_str(&self.detail)
        )
    }
}

#[derive(Default)]
pub struct RunResult {
    pub violations: Vec<Violation>,
    pub digest: u64,
    pub steps: u64,
    /// faults that actually fired, by kind
    pub faults: BTreeMap<&'static str, u64>,
    /// "this condition was reached" counters owned by the harness
    pub reach: BTreeMap<&'static str, u64>,
    /// hashes of the distinct non-trivial cases this run covered (scenario-defined rule)
    pub cover: BTreeSet<u64>,
    /// true if the plan as a whole counts as non-trivial by the scenario's rule
    pub nontrivial: bool,
}

impl RunResult {
    pub fn fault(&mut self, kind: &'static str) {
        *self.faults.entry(kind).or_insert(0) += 1;
    }
    pub fn reach(&mut self, what: &'static str) {
        *self.reach.entry(what).or_insert(0) += 1;
    }
    pub fn reach_n(&mut self, what: &'static str, n: u64) {
        *self.reach.entry(what).or_insert(0) += n;
    }
    pub fn violate(
        &mut self,
        property: &'static str,
        oracle: &str,
        api: &str,
        step: usize,
        detail: String,
    ) {
        if self.violations.len() < 8 {
            self.violations.push(Violation {
                property,
                oracle: oracle.to_string(),
                api: api.to_string(),
                step,
                detail,
            });
        }
    }
}

thread_local! {
    static LAST_PANIC: RefCell<Option<String>> = RefCell::new(None);
}

pub fn install_panic_hook() {
    panic::set_hook(Box::new(|info| {
        let msg = if let Some(s) = info.payload().downcast_ref::<&str>() {
            s.to_string()
        } else if let Some(s) = info.payload().downcast_ref::<String>() {
            s.clone()
        } else {
            "<non-string panic>".to_string()
        };
        let loc = info
            .location()
            .map(|l| format!("{}:{}", l.file(), l.line()))
            .unwrap_or_default();
        LAST_PANIC.with(|p| *p.borrow_mut() = Some(format!("{msg} @ {loc}")));
    }));
}

/// Run `f`, converting an unwind into `Err(message @ location)`.
pub fn catch<T>(f: impl FnOnce() -> T) -> Result<T, String> {
    match panic::catch_unwind(AssertUnwindSafe(f)) {
        Ok(v) => Ok(v),
        Err(_) => Err(LAST_PANIC
            .with(|p| p.borrow_mut().take())
            .unwrap_or_else(|| "<panic>".into())),
    }
}

// ---- fatal signals and hangs ---------------------------------------------------------------

pub static CUR_RUN: AtomicU64 = AtomicU64::new(u64::MAX);
pub static CUR_STEP: AtomicU64 = AtomicU64::new(0);

#[inline]
pub fn at_step(step: usize) {
    CUR_STEP.store(step as u64, Ordering::Relaxed);
}

fn fmt_u64(mut x: u64, buf: &mut [u8; 24]) -> &[u8] {
    let mut i = buf.len();
    if x == 0 {
        i -= 1;
        buf[i] = b'0';
    }
    while x > 0 {
        i -= 1;
        buf[i] = b'0' + (x % 10) as u8;
        x /= 10;
    }
    &buf[i..]
}

/// Set while a step over an unwound object runs: nothing is promised about such a step, not even termination,
/// so the watchdog firing there is reported as `TOLERATED` (the run is abandoned, no violation).
pub static TOLERATE_HANG: AtomicBool = AtomicBool::new(false);

extern "C" fn on_fatal(sig: libc::c_int) {
    // async-signal-safe: only write(2) and _exit(2)
    if sig == libc::SIGALRM && TOLERATE_HANG.load(Ordering::Relaxed) {
        let mut b2 = [0u8; 24];
        let mut b3 = [0u8; 24];
        let parts: [&[u8]; 5] = [
            b"\nTOLERATED run=",
            fmt_u64(CUR_RUN.load(Ordering::Relaxed), &mut b2),
            b" step=",
            fmt_u64(CUR_STEP.load(Ordering::Relaxed), &mut b3),
            b"\n",
        ];
        for p in parts.iter() {
            unsafe {
                libc::write(1, p.as_ptr() as *const libc::c_void, p.len());
            }
        }
        unsafe { libc::_exit(76) }
    }
    let mut b1 = [0u8; 24];
    let mut b2 = [0u8; 24];
    let mut b3 = [0u8; 24];
    let run = CUR_RUN.load(Ordering::Relaxed);
    let step = CUR_STEP.load(Ordering::Relaxed);
    let parts: [&[u8]; 7] = [
        b"\nFATAL sig=",
        fmt_u64(sig as u64, &mut b1),
        b" run=",
        fmt_u64(run, &mut b2),
        b" step=",
        fmt_u64(step, &mut b3),
        b"\n",
    ];
    for p in parts.iter() {
        unsafe {
            libc::write(1, p.as_ptr() as *const libc::c_void, p.len());
        }
    }
    unsafe { libc::_exit(if sig == libc::SIGALRM { 75 } else { 70 }) }
}

pub fn install_signal_handlers() {
    unsafe {
        // alternate stack so that a stack overflow is reported too
        let sz = 1 << 16;
        let stack = libc::mmap(
            std::ptr::null_mut(),
            sz,
            libc::PROT_READ | libc::PROT_WRITE,
            libc::MAP_PRIVATE | libc::MAP_ANONYMOUS,
            -1,
            0,
        );
        let ss = libc::stack_t {
            ss_sp: stack,
            ss_flags: 0,
            ss_size: sz,
        };
        libc::sigaltstack(&ss, std::ptr::null_mut());
        for &sig in &[
            libc::SIGSEGV,
            libc::SIGBUS,
            libc::SIGFPE,
            libc::SIGILL,
            libc::SIGABRT,
            libc::SIGALRM,
        ] {
            let mut sa: libc::sigaction = std::mem::zeroed();
            sa.sa_sigaction = on_fatal as *const () as usize;
            sa.sa_flags = libc::SA_ONSTACK;
            libc::sigemptyset(&mut sa.sa_mask);
            libc::sigaction(sig, &sa, std::ptr::null_mut());
        }
    }
}

/// Cap the memory a worker can commit, so that a runaway operation ends in an abort that the
/// signal handler reports (with the run index) instead of the kernel's OOM killer.
pub fn limit_memory(bytes: u64) {
    unsafe {
        let lim = libc::rlimit {
            rlim_cur: bytes,
            rlim_max: bytes,
        };
        libc::setrlimit(libc::RLIMIT_DATA, &lim);
    }
}

pub fn watchdog_secs() -> u32 {
    std::env::var("NBSIM_WATCHDOG_S").ok().and_then(|s| s.parse().ok()).unwrap_or(20)
}

/// (Re)arm the per-run hang watchdog. Pure hang detector; never influences a terminating run.
pub fn arm_watchdog(seconds: u32) {
    unsafe {
        libc::alarm(seconds);
    }
}
