//! SimAlloc — the simulated allocator (seam S4).
//!
//! Mode `PLAIN` forwards to the system allocator. Mode `GUARD` carves every block out of one huge
//! `PROT_NONE` reservation: the block's pages are made accessible, the page behind it (and, because
//! freed and never-used pages stay `PROT_NONE`, the page before it) is not. Per allocation a hash of
//! (run seed, allocation ordinal) decides whether the block *ends* exactly at the guard page
//! (catches over-runs by one digit) or *starts* right behind one (catches under-runs). Fresh memory
//! is filled with a seed-dependent garbage pattern; `realloc` always moves and the old block becomes
//! inaccessible for the rest of the run (stale-pointer detection). A worker is single-threaded, so
//! the ordinal — and with it every placement decision — is a deterministic function of the plan.

use crate::prng::mix;
use std::alloc::{GlobalAlloc, Layout, System};
use std::sync::atomic::{AtomicBool, AtomicU64, AtomicU8, AtomicUsize, Ordering::Relaxed};

pub const PLAIN: u8 = 0;
pub const GUARD: u8 = 1;

const PAGE: usize = 4096;
const ARENA_SIZE: usize = 1 << 37; // 128 GiB of address space, never committed as a whole

static MODE: AtomicU8 = AtomicU8::new(PLAIN);
static SEED: AtomicU64 = AtomicU64::new(0);
static ORDINAL: AtomicU64 = AtomicU64::new(0);
static ARENA_BASE: AtomicUsize = AtomicUsize::new(0);
static ARENA_POS: AtomicUsize = AtomicUsize::new(0);
static LIVE: AtomicUsize = AtomicUsize::new(0);
static MAX_REQ: AtomicUsize = AtomicUsize::new(0);
static TRACK_MAX: AtomicBool = AtomicBool::new(false);
static LAST_PTR: AtomicUsize = AtomicUsize::new(0);
static LAST_SIZE: AtomicUsize = AtomicUsize::new(0);
// statistics (fired fault kinds)
pub static N_GUARD_END: AtomicU64 = AtomicU64::new(0);
pub static N_GUARD_START: AtomicU64 = AtomicU64::new(0);
pub static N_MOVED: AtomicU64 = AtomicU64::new(0);
pub static N_FALLBACK: AtomicU64 = AtomicU64::new(0);
/// placement policy: 0 = mixed (75% end / 25% start), 1 = always end, 2 = always start
static POLICY: AtomicU8 = AtomicU8::new(0);

pub struct SimAlloc;

fn arena_base() -> usize {
    let b = ARENA_BASE.load(Relaxed);
    if b != 0 {
        return b;
    }
    unsafe {
        let p = libc::mmap(
            std::ptr::null_mut(),
            ARENA_SIZE,
            libc::PROT_NONE,
            libc::MAP_PRIVATE | libc::MAP_ANONYMOUS | libc::MAP_NORESERVE,
            -1,
            0,
        );
        if p == libc::MAP_FAILED {
            return 0;
        }
        ARENA_BASE.store(p as usize, Relaxed);
        p as usize
    }
}

#[inline]
fn in_arena(p: usize) -> bool {
    let b = ARENA_BASE.load(Relaxed);
    b != 0 && p >= b && p < b + ARENA_SIZE
}

unsafe fn guard_alloc(size: usize, align: usize) -> *mut u8 {
    let base = arena_base();
    if base == 0 || align > PAGE {
        N_FALLBACK.fetch_add(1, Relaxed);
        return std::ptr::null_mut();
    }
    let pages = (size.max(1) + PAGE - 1) / PAGE;
    let region = (pages + 1) * PAGE;
    let off = ARENA_POS.fetch_add(region, Relaxed);
    if off + region > ARENA_SIZE {
        N_FALLBACK.fetch_add(1, Relaxed);
        return std::ptr::null_mut();
    }
    let data = base + off;
    if libc::mprotect(data as *mut libc::c_void, pages * PAGE, libc::PROT_READ | libc::PROT_WRITE) != 0 {
        N_FALLBACK.fetch_add(1, Relaxed);
        return std::ptr::null_mut();
    }
    let ord = ORDINAL.fetch_add(1, Relaxed);
    let h = mix(&[SEED.load(Relaxed), ord]);
    let at_start = match POLICY.load(Relaxed) {
        1 => false,
        2 => true,
        _ => h & 3 == 0,
    };
    // garbage: never zero, differs between runs and allocations
    let fill = 0x80 | ((h >> 8) as u8 & 0x7f);
    std::ptr::write_bytes(data as *mut u8, fill, pages * PAGE);
    let ptr = if at_start {
        N_GUARD_START.fetch_add(1, Relaxed);
        data
    } else {
        N_GUARD_END.fetch_add(1, Relaxed);
        (data + pages * PAGE - size) & !(align - 1)
    };
    LIVE.fetch_add(1, Relaxed);
    LAST_PTR.store(ptr, Relaxed);
    LAST_SIZE.store(size, Relaxed);
    ptr as *mut u8
}

unsafe fn guard_free(ptr: usize, size: usize) {
    let data = ptr & !(PAGE - 1);
    let pages = (ptr - data + size.max(1) + PAGE - 1) / PAGE;
    libc::mprotect(data as *mut libc::c_void, pages * PAGE, libc::PROT_NONE);
    libc::madvise(data as *mut libc::c_void, pages * PAGE, libc::MADV_DONTNEED);
    LIVE.fetch_sub(1, Relaxed);
}

unsafe impl GlobalAlloc for SimAlloc {
    unsafe fn alloc(&self, layout: Layout) -> *mut u8 {
        if TRACK_MAX.load(Relaxed) {
            MAX_REQ.fetch_max(layout.size(), Relaxed);
        }
        if MODE.load(Relaxed) == GUARD {
            let p = guard_alloc(layout.size(), layout.align());
            if !p.is_null() {
                return p;
            }
        }
        System.alloc(layout)
    }
    unsafe fn dealloc(&self, ptr: *mut u8, layout: Layout) {
        if in_arena(ptr as usize) {
            guard_free(ptr as usize, layout.size());
        } else {
            System.dealloc(ptr, layout)
        }
    }
    unsafe fn realloc(&self, ptr: *mut u8, layout: Layout, new_size: usize) -> *mut u8 {
        if TRACK_MAX.load(Relaxed) {
            MAX_REQ.fetch_max(new_size, Relaxed);
        }
        if MODE.load(Relaxed) == PLAIN && !in_arena(ptr as usize) {
            return System.realloc(ptr, layout, new_size);
        }
        // always move: the old block becomes inaccessible
        let new_layout = Layout::from_size_align_unchecked(new_size, layout.align());
        let np = self.alloc(new_layout);
        if !np.is_null() {
            std::ptr::copy_nonoverlapping(ptr, np, layout.size().min(new_size));
            self.dealloc(ptr, layout);
            N_MOVED.fetch_add(1, Relaxed);
        }
        np
    }
}

// ---- control surface used by the scenarios -------------------------------------------------------

pub fn set_mode(m: u8) {
    MODE.store(m, Relaxed);
}
pub fn mode() -> u8 {
    MODE.load(Relaxed)
}
pub fn set_policy(p: u8) {
    POLICY.store(p, Relaxed);
}
/// Start of a run: new placement stream; the arena is rewound if nothing is live in it.
pub fn begin_run(seed: u64) {
    SEED.store(seed, Relaxed);
    ORDINAL.store(0, Relaxed);
    if LIVE.load(Relaxed) == 0 {
        ARENA_POS.store(0, Relaxed);
    }
}
pub fn live() -> usize {
    LIVE.load(Relaxed)
}
pub fn track_max(on: bool) {
    MAX_REQ.store(0, Relaxed);
    TRACK_MAX.store(on, Relaxed);
}
pub fn max_request() -> usize {
    MAX_REQ.load(Relaxed)
}
pub fn last_alloc() -> (usize, usize) {
    (LAST_PTR.load(Relaxed), LAST_SIZE.load(Relaxed))
}
/// Make the pages of a guarded block read-only (or writable again). The block must be alone on its
/// pages, which holds for every GUARD-mode allocation.
pub fn set_readonly(ptr: usize, size: usize, ro: bool) -> bool {
    if !in_arena(ptr) || size == 0 {
        return false;
    }
    let data = ptr & !(PAGE - 1);
    let pages = (ptr - data + size + PAGE - 1) / PAGE;
    let prot = if ro { libc::PROT_READ } else { libc::PROT_READ | libc::PROT_WRITE };
    unsafe { libc::mprotect(data as *mut libc::c_void, pages * PAGE, prot) == 0 }
}
pub fn counters() -> (u64, u64, u64, u64) {
    (
        N_GUARD_END.load(Relaxed),
        N_GUARD_START.load(Relaxed),
        N_MOVED.load(Relaxed),
        N_FALLBACK.load(Relaxed),
    )
}
