//! C11: integer roots with the Newton starting point owned by the simulator (seam S7), replayed in
//! the std and the no_std build of the library (seam S8).

use crate::obs::{denote_i, denote_u, noncanonical_i, noncanonical_u};
use crate::plan::{fnv, Digest, Plan, Step};
use crate::prng::Prng;
use crate::refnat::RefNat;
use crate::sup::{at_step, catch, RunResult};
use num_bigint::__verif as hook;
use num_bigint::{BigInt, BigUint, Sign};
use num_integer::Roots;
use std::cmp::Ordering;

const P: &str = "C11";
const MAX_BITS: u64 = 6000;

fn gen_x(rng: &mut Prng, n: u32, thorough: bool) -> (Vec<u32>, &'static str) {
    let regime = rng.below(13);
    if regime == 12 {
        // bit lengths where a float-derived root stops being exact: around n * 53 (f64 mantissa) and n * 24
        let nn = n.clamp(1, 60) as u64;
        let bits = (nn * *rng.pick(&[53u64, 53, 53, 24, 64])).saturating_add(rng.below(5)).saturating_sub(2).clamp(2, MAX_BITS - 1);
        let mut x = RefNat::from_u32s(&rng.digits32(((bits + 31) / 32) as usize, true));
        let extra = x.bits().saturating_sub(bits);
        x = x.shr(extra);
        if x.bits() < bits {
            x = x.add(&RefNat::one().shl(bits - 1));
        }
        if rng.chance(1, 2) {
            // a perfect power of that size and its neighbours
            let rbits = (bits / nn).max(1);
            let r = RefNat::one().shl(rbits - 1).add(&RefNat::from_u128(rng.next_u64() as u128 & ((1u128 << (rbits - 1).min(63)) - 1)));
            let pw = r.pow(n.clamp(1, 60));
            x = match rng.below(3) {
                0 => pw,
                1 => pw.sub(&RefNat::one()).unwrap_or(RefNat::one()),
                _ => pw.add_small(1),
            };
        }
        return (x.0, "mantissa_boundary");
    }
    if regime >= 10 {
        // exact regime boundaries: 2^k, 2^k - 1, 2^k + 1 around the u64 fast path, the f64 range and n * j
        let k = match rng.below(4) {
            0 => *rng.pick(&[63u64, 64, 65, 127, 128, 129]),
            1 => *rng.pick(&[1022u64, 1023, 1024, 1025, 1026, 2047, 2048]),
            2 => (n.max(1) as u64).saturating_mul(rng.range(1, 40)).min(MAX_BITS - 2) + rng.below(3) - 1,
            _ => rng.range(60, 1100),
        }
        .clamp(1, MAX_BITS - 2);
        let p = RefNat::one().shl(k);
        let x = match rng.below(3) {
            0 => p,
            1 => p.sub(&RefNat::one()).unwrap(),
            _ => p.add_small(1),
        };
        return (x.0, "power_of_two_boundary");
    }
    let max_words = if thorough { 187 } else { 120 };
    match regime {
        0 => ({ let n_ = rng.range(1, 2) as usize; rng.digits32(n_, true) }, "below_2_64"),
        1 | 2 => ({ let n_ = rng.range(3, 32) as usize; rng.digits32(n_, true) }, "float_finite"),
        3 | 4 => ({ let n_ = rng.range(33, max_words) as usize; rng.digits32(n_, true) }, "beyond_2_1024"),
        5 | 6 | 7 => {
            // perfect power r^n, r^n - 1, r^n + 1 with r^n capped at MAX_BITS
            let nn = n.max(1) as u64;
            let rbits_max = (MAX_BITS / nn).max(1);
            let rbits = rng.range(1, rbits_max.min(400));
            let mut r = RefNat::from_u32s(&rng.digits32(((rbits + 31) / 32) as usize, true)).shr(0);
            // trim to rbits bits
            let extra = r.bits().saturating_sub(rbits);
            r = r.shr(extra);
            if r.is_zero() {
                r = RefNat::one();
            }
            let p = r.pow(n.max(1));
            match regime {
                5 => (p.0, "perfect_power"),
                6 => (p.sub(&RefNat::one()).unwrap_or(RefNat::zero()).0, "perfect_power_minus_1"),
                _ => (p.add_small(1).0, "perfect_power_plus_1"),
            }
        }
        8 => {
            // bit length <= n (root must be 1) or just above
            let bits = (n as u64).saturating_add(rng.below(3)).saturating_sub(1).clamp(1, MAX_BITS);
            let x = RefNat::one().shl(bits - 1).add(&RefNat::from_u32s(&[rng.next_u32() & 1]));
            (x.0, "bits_near_n")
        }
        _ => {
            let words = rng.range(1, max_words) as usize;
            (vec![u32::MAX; words], "all_ones")
        }
    }
}

pub fn gen(rng: &mut Prng, plan: &mut Plan) {
    let thorough = plan.tier == "thorough";
    plan.cfg = Step::new("cfg");
    let nsteps = rng.range(1, 5);
    for _ in 0..nsteps {
        let kind = rng.below(4).min(2); // 0 sqrt, 1 cbrt, 2 nth (twice as likely)
        // 'small root sweep': the roots 1, 2 and 3 at *every* degree up to 30 000 (x up to 60 kbit): x = 2^n, 3^n, 4^n and
        // their neighbours, and the smallest value with the bit length of 3^n. The degree is swept by the run index
        // (a permutation of 1..=30000), not drawn, so that a degree-specific slip (a rational approximation of log2 3,
        // a table, an overflow at n * constant) is met by enumeration; one plan in 3, single step.
        if kind == 2 && plan.steps.is_empty() && plan.index % 3 == 2 {
            let n = 1 + ((plan.index / 3).wrapping_mul(7919).wrapping_add(plan.seed) % 30_000) as u32;
            let three = RefNat::from_u128(3).pow(n);
            let x = match rng.below(8) {
                0 | 1 => three.sub(&RefNat::one()).unwrap(),
                2 => three,
                3 => three.add_small(1),
                4 => RefNat::one().shl(three.bits() - 1),
                5 => RefNat::one().shl(n as u64).sub(&RefNat::from_u128(rng.below(2) as u128)).unwrap(),
                6 => RefNat::one().shl(2 * n as u64).sub(&RefNat::from_u128(rng.below(2) as u128)).unwrap(),
                _ => RefNat::one().shl(three.bits()).sub(&RefNat::one()).unwrap(),
            };
            let api = rng.below(2);
            let neg = api == 1 && rng.chance(1, 3);
            plan.steps.push(
                Step::new("root")
                    .i("api", api as i128)
                    .i("neg", neg as i128)
                    .i("kind", 2)
                    .i("n", n as i128)
                    .i("gm", hook::GUESS_IDENTITY as i128)
                    .i("gp", 0)
                    .s("regime", "small_root_sweep")
                    .l32("x", &x.0),
            );
            break;
        }
        // 'deep degree' regime: n in 1500..4600 with a root of 2..14 bits (x up to 60 kbit). This is where the
        // descending Newton loop converges linearly (one unit per round while the estimate is below n), i.e. the
        // only place where thousands of fix-point rounds happen. One call costs up to ~1.5 s in the debug harness (the replay watchdog is 6 s), so only one plan in
        // 509 (quick) / 4093 (thorough; primes, so that the strided workers share them) is of this kind, and it has a single step.
        let huge = kind == 2 && plan.steps.is_empty() && plan.index % (if thorough { 4093 } else { 509 }) == 3;
        if huge {
            let rbits = rng.range(2, 14);
            let mut r = (1u64 << (rbits - 1)) | (rng.next_u64() & ((1u64 << (rbits - 1)) - 1));
            if rng.chance(1, 2) {
                // lower part of the binade: farthest from the bit-size starting point 2^rbits
                r = (1u64 << (rbits - 1)) + (r & ((1u64 << (rbits - 1)) - 1)) / 4;
            }
            let n = rng.range(1500, (60_000 / rbits).min(4600)) as u32;
            let rr = RefNat::from_u128(r as u128);
            let pw = rr.pow(n);
            let x = match rng.below(4) {
                0 => pw,
                1 => pw.sub(&RefNat::one()).unwrap_or(RefNat::one()),
                2 => pw.add_small(1),
                _ => pw.add(&rr.pow(n - 1)),
            };
            let api = rng.below(2);
            let neg = api == 1 && rng.chance(1, 3);
            // (the perturbed call doubles the cost: only where the number of rounds, bounded by 2^rbits, is small)
            let gm = if rbits >= 12 || rng.chance(1, 2) { hook::GUESS_IDENTITY } else { hook::GUESS_NO_FLOAT };
            plan.steps.push(
                Step::new("root")
                    .i("api", api as i128)
                    .i("neg", neg as i128)
                    .i("kind", 2)
                    .i("n", n as i128)
                    .i("gm", gm as i128)
                    .i("gp", 0)
                    .s("regime", "deep_degree")
                    .l32("x", &x.0),
            );
            break;
        }
        let mut n: u32 = match kind {
            0 => 2,
            1 => 3,
            _ => *rng.pick(&[1u32, 2, 3, 4, 5, 7, 8, 16, 31, 32, 33, 64, 100, 0, u32::MAX, 1000]),
        };
        let (mut x, regime) = gen_x(rng, n, thorough);
        if kind == 2 && !huge && rng.chance(1, 6) {
            // degree relative to the bit length: bits-1, bits, bits+1
            let bits = RefNat::from_u32s(&x).bits();
            n = (bits as i64 + rng.below(3) as i64 - 1).clamp(1, u32::MAX as i64) as u32;
        }
        if !huge && RefNat::from_u32s(&x).bits() > MAX_BITS {
            x.truncate((MAX_BITS / 32) as usize);
        }
        let api = rng.below(2);
        let neg = api == 1 && rng.chance(1, 3);
        // the guess fault: only perturbations a real platform / configuration could produce
        let (gm, gp): (u32, i64) = match rng.below(8) {
            0 | 1 => (hook::GUESS_IDENTITY, 0),
            2 | 3 => (hook::GUESS_NO_FLOAT, 0),
            4 => (hook::GUESS_OFFSET, *rng.pick(&[-2i64, -1, 1, 2])),
            5 => (hook::GUESS_RELATIVE, *rng.pick(&[52i64, 51, 50, -52, -51, -50])), // a few ulps
            _ => (hook::GUESS_RELATIVE, {
                let j = rng.range(20, 52) as i64;
                if rng.chance(1, 2) {
                    j
                } else {
                    -j
                }
            }),
        };
        plan.steps.push(
            Step::new("root")
                .i("api", api as i128)
                .i("neg", neg as i128)
                .i("kind", kind as i128)
                .i("n", n as i128)
                .i("gm", gm as i128)
                .i("gp", gp as i128)
                .s("regime", regime)
                .l32("x", &x),
        );
    }
}

fn n_class(n: u32, bits: u64) -> &'static str {
    if n == 0 {
        "0"
    } else if n == 1 {
        "1"
    } else if n == 2 {
        "2"
    } else if n == 3 {
        "3"
    } else if n as u64 >= bits {
        "ge_bits"
    } else if n as u64 + 2 >= bits {
        "near_bits"
    } else if n <= 8 {
        "small"
    } else if n <= 64 {
        "medium"
    } else {
        "large"
    }
}

/// One call of the library with the guess knob set; the knob is always restored.
fn call(api: i128, kind: i128, n: u32, xu: &BigUint, xi: &BigInt, gm: u32, gp: i64) -> Result<(bool, RefNat, Option<String>), String> {
    hook::set_guess(gm, gp);
    let r = catch(|| {
        if api == 0 {
            let r = match kind {
                0 => xu.sqrt(),
                1 => xu.cbrt(),
                _ => xu.nth_root(n),
            };
            (false, denote_u(&r), noncanonical_u(&r))
        } else {
            let r = match kind {
                0 => Roots::sqrt(xi),
                1 => Roots::cbrt(xi),
                _ => Roots::nth_root(xi, n),
            };
            let d = denote_i(&r);
            (d.neg, d.mag, noncanonical_i(&r))
        }
    });
    hook::set_guess(hook::GUESS_IDENTITY, 0);
    r
}

pub fn exec(plan: &Plan) -> RunResult {
    let mut res = RunResult::default();
    let mut dg = Digest::new();
    for (si, s) in plan.steps.iter().enumerate() {
        at_step(si);
        res.steps += 1;
        let api = s.int("api");
        let neg = s.int("neg") != 0;
        let kind = s.int("kind");
        let n = s.int("n") as u32;
        let deg = match kind {
            0 => 2,
            1 => 3,
            _ => n,
        };
        let gm = s.int("gm") as u32;
        let gp = s.int("gp") as i64;
        let xw = s.list32("x");
        let xr = RefNat::from_u32s(&xw);
        let xu = BigUint::new(xw.clone());
        let xi = BigInt::from_biguint(if neg { Sign::Minus } else { Sign::Plus }, xu.clone());
        let neg = neg && !xr.is_zero();
        let apiname = format!("{}::{}", if api == 0 { "BigUint" } else { "BigInt" }, ["sqrt", "cbrt", "nth_root"][kind as usize]);
        macro_rules! bad {
            ($oracle:expr, $($arg:tt)*) => {{
                res.violate(P, $oracle, &apiname, si, format!($($arg)*));
                res.digest = dg.0;
                return res;
            }};
        }
        let must_panic = deg == 0 || (neg && deg % 2 == 0);
        let up0 = hook::read(hook::FIXPOINT_UP);
        let down0 = hook::read(hook::FIXPOINT_DOWN);
        let gf0 = hook::read(hook::GUESS_FLOAT);
        let gs0 = hook::read(hook::GUESS_SCALED);
        let base = call(api, kind, n, &xu, &xi, hook::GUESS_IDENTITY, 0);
        let iters_base = hook::read(hook::FIXPOINT_UP) + hook::read(hook::FIXPOINT_DOWN) - up0 - down0;
        let used_float = hook::read(hook::GUESS_FLOAT) > gf0;
        let used_scaled = hook::read(hook::GUESS_SCALED) > gs0;
        let (rneg, r) = match (&base, must_panic) {
            (Ok((_, r, _)), true) => bad!(
                "must-panic",
                "degree {deg} of {}{}: returned {} instead of panicking",
                if neg { "-" } else { "" },
                xr.to_hex(),
                r.to_hex()
            ),
            (Err(_), true) => {
                res.fault("panic.documented");
                dg.u64(0xfa11);
                res.cover.insert(fnv(format!("panic|{apiname}|{}", deg == 0).as_bytes()));
                res.nontrivial = true;
                continue;
            }
            (Err(m), false) => bad!("unexpected-panic", "degree {deg} of {}: {m}", xr.to_hex()),
            (Ok((rn, r, nc)), false) => {
                if let Some(nc) = nc {
                    bad!("canonical", "{nc}");
                }
                (*rn, r.clone())
            }
        };
        dg.u64(rneg as u64);
        dg.u32s(&r.0);
        // exact floor root of |x| by the reference model: r^n <= |x| < (r+1)^n
        let lo = r.pow_cmp(deg, &xr);
        let hi = r.add_small(1).pow_cmp(deg, &xr);
        if lo == Ordering::Greater || hi != Ordering::Greater {
            bad!(
                "floor-root",
                "degree {deg} root of {} returned {}: r^n {} x, (r+1)^n {} x",
                xr.to_hex(),
                r.to_hex(),
                match lo { Ordering::Less => "<", Ordering::Equal => "=", Ordering::Greater => ">" },
                match hi { Ordering::Less => "<", Ordering::Equal => "=", Ordering::Greater => ">" }
            );
        }
        if rneg != (neg && !r.is_zero()) {
            bad!("sign", "root of a {} value came back {}", if neg { "negative" } else { "non-negative" }, if rneg { "negative" } else { "non-negative" });
        }
        // the same call with the environment's starting point perturbed
        if gm != hook::GUESS_IDENTITY {
            let up1 = hook::read(hook::FIXPOINT_UP);
            let down1 = hook::read(hook::FIXPOINT_DOWN);
            let pert = call(api, kind, n, &xu, &xi, gm, gp);
            let iters = hook::read(hook::FIXPOINT_UP) + hook::read(hook::FIXPOINT_DOWN) - up1 - down1;
            let went_up = hook::read(hook::FIXPOINT_UP) > up1;
            match pert {
                Err(m) => bad!("guess-dependence", "with guess fault ({gm},{gp}) the call panicked: {m}; x = {}", xr.to_hex()),
                Ok((pn, pr, _)) => {
                    if pn != rneg || pr != r {
                        bad!(
                            "guess-dependence",
                            "degree {deg} root of {}: {} with the default guess, {} with guess fault (mode {gm}, param {gp})",
                            xr.to_hex(),
                            r.to_hex(),
                            pr.to_hex()
                        );
                    }
                }
            }
            res.fault(match gm {
                1 => "guess.no_float",
                2 => "guess.off",
                _ => {
                    if gp.abs() >= 50 {
                        "guess.ulp"
                    } else {
                        "guess.rel"
                    }
                }
            });
            if went_up {
                res.reach("ascending_loop_ran");
            }
            res.reach_n("fixpoint_iterations_after_fault", iters);
            if iters > 8 * deg as u64 + 128 {
                res.reach("iteration_count_above_8n_plus_128");
            }
        }
        if s.str("regime") == "small_root_sweep" {
            res.reach("small_root_sweep_call");
            res.nontrivial = true;
            res.cover.insert(fnv(format!("sweep|{}", deg / 128).as_bytes()));
        }
        if s.str("regime") == "deep_degree" {
            res.reach("deep_degree_call");
            res.reach_n("deep_degree_fixpoint_rounds", iters_base);
            if iters_base > 2048 {
                res.reach("deep_degree_call_above_2048_rounds");
            }
        }
        if used_float {
            res.reach("float_guess_path");
        }
        if used_scaled {
            res.reach("scaled_recursive_guess_path");
        }
        let nontrivial = iters_base >= 2 || gm != hook::GUESS_IDENTITY;
        if nontrivial {
            res.nontrivial = true;
            res.cover.insert(fnv(
                format!("{apiname}|{}|{}|{gm}|{}|{neg}", s.str("regime"), n_class(deg, xr.bits()), gp.signum()).as_bytes(),
            ));
        }
    }
    res.digest = dg.0;
    res
}
