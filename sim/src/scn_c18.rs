//! C18: random generation against a simulated RNG stream (seam S1).
//! The RNG is the nondeterminism: scripted segments (stuck-at, adversarial candidates equal to /
//! just above the bound, all-ones) force the rejection loops to retry; every stream heals to
//! zero words, so a correct sampler always terminates (bounded liveness, no probabilistic slack).

use crate::obs::{denote_i, denote_u, i_from_ref, noncanonical_i, noncanonical_u, u_from_ref};
use crate::plan::{fnv, Digest, Plan, Step};
use crate::prng::Prng;
use crate::refnat::{RefInt, RefNat};
use crate::seams::SimRng;
use crate::sup::{at_step, catch, RunResult};
use num_bigint::{BigInt, BigUint, RandBigInt, RandomBits, UniformBigInt, UniformBigUint};
use rand::distributions::uniform::UniformSampler;
use rand::distributions::{Distribution, Uniform};
use rand::Rng;
use std::cmp::Ordering;

const P: &str = "C18";

// ---- generation -------------------------------------------------------------------------------

fn gen_bits(rng: &mut Prng, big: bool) -> u64 {
    if big && rng.chance(1, 6) {
        // far beyond any internal block size: 32-bit word counts that are odd / even / powers of two
        return *rng.pick(&[32_768u64, 32_769, 32_800, 32_801, 65_536, 65_567, 40_033, 70_001, 131_072, 131_073, 131_104, 131_105, 140_001, 262_177, 300_033, 524_288, 524_289, 524_321, 600_033, 1_048_609]);
    }
    match rng.below(12) {
        0 => 0,
        1 => 1,
        2 => 32 * rng.range(1, 5),
        3 => 32 * rng.range(1, 5) + 1,
        4 => 32 * rng.range(1, 5) - 1,
        5 => 64 * rng.range(1, 3),
        6 => 64 * rng.range(1, 3) + rng.range(33, 63),
        7 if big => rng.range(131, 4096),
        _ => rng.range(0, 130),
    }
}

fn gen_bound(rng: &mut Prng) -> RefNat {
    let k = match rng.below(8) {
        0 => rng.range(0, 6),
        1 => 32 * rng.range(1, 4),
        2 => 64 * rng.range(1, 3),
        3 => rng.range(131, 600),
        _ => rng.range(0, 130),
    };
    let p = RefNat::one().shl(k);
    match rng.below(9) {
        0 => RefNat::one(),
        1 => p,
        2 => p.add_small(1),
        3 => p.sub(&RefNat::one()).filter(|x| !x.is_zero()).unwrap_or(RefNat::one()),
        4 => RefNat::zero(), // zero bound: documented panic
        _ => {
            let len = (k as usize) / 32 + 1;
            let v = rng.digits32(len, true);
            let r = RefNat::from_u32s(&v);
            if r.is_zero() {
                RefNat::one()
            } else {
                r
            }
        }
    }
}

fn gen_int(rng: &mut Prng) -> RefInt {
    let m = if rng.chance(1, 5) { RefNat::zero() } else { gen_bound(rng) };
    RefInt::new(rng.chance(1, 2), m)
}

/// Words that make `gen_biguint(bits)` produce exactly `c` (c < 2^bits), junk in the shifted-out bits.
fn script_candidate(rng: &mut Prng, c: &RefNat, bits: u64, out: &mut Vec<u32>) {
    let len = ((bits + 31) / 32) as usize;
    let rem = (bits % 32) as u32;
    for i in 0..len {
        let mut w = c.0.get(i).copied().unwrap_or(0);
        if i + 1 == len && rem > 0 {
            let junk = match rng.below(3) {
                0 => 0,
                1 => (1u32 << (32 - rem)) - 1,
                _ => rng.next_u32() & ((1u32 << (32 - rem)) - 1),
            };
            w = (w << (32 - rem)) | junk;
        }
        out.push(w);
    }
}

fn script_for_bound(rng: &mut Prng, b: &RefNat, out: &mut Vec<u32>) {
    if b.is_zero() {
        return;
    }
    let bits = b.bits();
    let len = ((bits + 31) / 32) as usize;
    let top = RefNat::one().shl(bits).sub(&RefNat::one()).unwrap();
    let nfaulty = match rng.below(6) {
        0 | 1 => 0,
        2 | 3 => 1,
        4 => 2,
        _ => rng.range(3, 6),
    };
    for _ in 0..nfaulty {
        // adversarial candidates: == bound, bound+1, all ones (each >= bound, must be rejected)
        let c = match rng.below(4) {
            0 => b.clone(),
            1 => {
                let x = b.add_small(1);
                if x.bits() > bits {
                    b.clone()
                } else {
                    x
                }
            }
            2 => top.clone(),
            _ => {
                // random of that bit width (may or may not be below the bound)
                let v = rng.digits32(len, false);
                RefNat::from_u32s(&v).shr(0)
            }
        };
        let c = if c.bits() > bits { top.clone() } else { c };
        script_candidate(rng, &c, bits, out);
    }
    match rng.below(4) {
        0 => {} // heal: zeros
        1 => {
            // bound - 1: the largest acceptable candidate
            let c = b.sub(&RefNat::one()).unwrap();
            script_candidate(rng, &c, bits, out);
        }
        _ => {
            for _ in 0..len {
                out.push(rng.next_u32());
            }
        }
    }
}

fn push_nat(s: Step, k: &str, n: &RefNat) -> Step {
    s.l32(k, &n.0)
}
fn push_int(s: Step, k: &str, n: &RefInt) -> Step {
    let ks = format!("{k}s");
    s.i(&ks, n.neg as i128).l32(k, &n.mag.0)
}
fn get_nat(s: &Step, k: &str) -> RefNat {
    RefNat::from_u32s(&s.list32(k))
}
fn get_int(s: &Step, k: &str) -> RefInt {
    RefInt::new(s.int(&format!("{k}s")) != 0, get_nat(s, k))
}

pub fn gen(rng: &mut Prng, plan: &mut Plan) {
    let big = plan.tier == "thorough" && rng.chance(1, 4) || rng.chance(1, 40);
    let mut words: Vec<u32> = Vec::new();
    let ncalls = rng.range(1, 10);
    // swarm: which API families are on in this run
    let fam_mask = rng.range(1, 31);
    let mut steps = Vec::new();
    while (steps.len() as u64) < ncalls {
        let fam = rng.below(5);
        if fam_mask & (1 << fam) == 0 {
            continue;
        }
        match fam {
            0 => {
                // raw bit generators
                let n = gen_bits(rng, big);
                let op = *rng.pick(&["gen_biguint", "gen_bigint", "rbits_u", "rbits_i"]);
                let len = ((n + 31) / 32) as usize;
                let reps = if op.ends_with('i') || op == "gen_bigint" { rng.range(1, 3) } else { 1 };
                for _ in 0..reps {
                    match rng.below(6) {
                        0 => words.extend(std::iter::repeat(0).take(len)),
                        1 => words.extend(std::iter::repeat(u32::MAX).take(len)),
                        2 => {
                            // top word(s) zero: a high zero digit that must be stripped
                            for i in 0..len {
                                words.push(if i + 2 >= len { 0 } else { rng.next_u32() });
                            }
                        }
                        _ => {
                            for _ in 0..len {
                                words.push(rng.word32());
                            }
                        }
                    }
                    if op == "gen_bigint" || op == "rbits_i" {
                        words.push(*rng.pick(&[0u32, 0x8000_0000, u32::MAX, 0x7fff_ffff, 1]));
                    }
                }
                steps.push(Step::new(op).i("n", n as i128));
            }
            1 => {
                let b = gen_bound(rng);
                script_for_bound(rng, &b, &mut words);
                steps.push(push_nat(Step::new("below"), "b", &b));
            }
            2 => {
                // unsigned ranges
                let l = if rng.chance(1, 3) { RefNat::zero() } else { gen_bound(rng) };
                let w = gen_bound(rng);
                let (mut l, mut u) = match rng.below(10) {
                    0 => (l.clone(), l.clone()), // empty
                    1 => (l.add(&w), l.clone()), // inverted (or empty when w == 0)
                    _ => (l.clone(), l.add(&w)),
                };
                let mut incl = rng.chance(1, 3);
                if rng.chance(1, 7) {
                    // the full range of a primitive unsigned type: 0 ..= uN::MAX (and neighbours)
                    let nb = *rng.pick(&[8u64, 16, 32, 64, 128]);
                    l = RefNat::zero();
                    u = RefNat::one().shl(nb).sub(&RefNat::one()).unwrap();
                    incl = rng.chance(2, 3);
                    match rng.below(4) {
                        0 => l = RefNat::one(),
                        1 => u = u.add_small(1),
                        _ => {}
                    }
                }
                let width = if incl { u.sub(&l).map(|x| x.add_small(1)) } else { u.sub(&l) };
                if let Some(wd) = width {
                    script_for_bound(rng, &wd, &mut words);
                }
                let op = *rng.pick(&["urange", "sample_single_u", "sample_single_u", "gen_range_u", "uniform_u", "uniform_u"]);
                let mut s = push_nat(push_nat(Step::new(op), "l", &l), "u", &u);
                if op == "uniform_u" || op == "gen_range_u" || op == "sample_single_u" {
                    s = s.i("incl", incl as i128);
                }
                if op == "uniform_u" {
                    s = s.i("count", rng.range(1, 4) as i128).i("be", if rng.chance(1, 2) { 0 } else { rng.range(1, 3) as i128 });
                }
                steps.push(s);
            }
            3 => {
                // signed ranges, including the lbound = 0 and ubound = 0 special cases
                let w = gen_bound(rng);
                let l = match rng.below(4) {
                    0 => RefInt::new(false, RefNat::zero()),
                    1 => RefInt::new(true, w.clone()), // then u = l + w = 0
                    _ => gen_int(rng),
                };
                let wi = RefInt::new(false, w.clone());
                let (mut l, mut u) = match rng.below(10) {
                    0 => (l.clone(), l.clone()),
                    1 => (l.add(&wi), l.clone()),
                    _ => (l.clone(), l.add(&wi)),
                };
                let mut incl = rng.chance(1, 3);
                if rng.chance(1, 7) {
                    // the full range of a primitive signed type (and its neighbours): iN::MIN ..= iN::MAX
                    let nb = *rng.pick(&[8u64, 16, 32, 64, 128]);
                    let half = RefNat::one().shl(nb - 1);
                    l = RefInt::new(true, half.clone());
                    u = RefInt::new(false, half.sub(&RefNat::one()).unwrap());
                    incl = rng.chance(2, 3);
                    match rng.below(5) {
                        0 => l = l.add(&RefInt::from_i128(1)),
                        1 => u = u.add(&RefInt::from_i128(1)),
                        2 => l = l.sub(&RefInt::from_i128(1)),
                        _ => {}
                    }
                }
                let d = u.sub(&l);
                if !d.neg {
                    let wd = if incl { d.mag.add_small(1) } else { d.mag.clone() };
                    script_for_bound(rng, &wd, &mut words);
                }
                let op = *rng.pick(&["irange", "sample_single_i", "sample_single_i", "gen_range_i", "uniform_i", "uniform_i"]);
                let mut s = push_int(push_int(Step::new(op), "l", &l), "u", &u);
                if op == "uniform_i" || op == "gen_range_i" || op == "sample_single_i" {
                    s = s.i("incl", incl as i128);
                }
                if op == "uniform_i" {
                    s = s.i("count", rng.range(1, 3) as i128).i("be", if rng.chance(1, 2) { 0 } else { rng.range(1, 3) as i128 });
                }
                steps.push(s);
            }
            _ => {
                // tiny bound: enumerate every value of the (top) word as first candidate
                let b = rng.range(1, 64);
                steps.push(
                    Step::new("enum_below")
                        .i("b", b as i128)
                        .i("junk", rng.below(3) as i128),
                );
            }
        }
    }
    let fail_at: i128 = if rng.chance(1, 12) { rng.below(6) as i128 } else { -1 };
    // a long stuck-at-ones fault in front of everything: tens of thousands up to more than 2^20 rejected candidates, then healing
    let stuck: i128 = if rng.chance(1, 150) { *rng.pick(&[4i128 * 70_000, 4 * 140_001, 4 * 300_000, 4 * 1_100_000, 8 * 1_100_000 + 4]) } else if rng.chance(1, 30) { 4 * rng.range(1, 3000) as i128 } else { 0 };
    plan.cfg = Step::new("cfg").i("fail_at", fail_at).i("stuck", stuck).l32("words", &words);
    plan.steps = steps;
}

/// `c18long`: one bounded draw behind a stuck-at-ones fault of more than 2^24 rejected candidates (64 MiB of stream
/// for a bound below 2^32, 128 MiB below 2^64; the prefix is virtual). Seconds per call in a debug build, so this
/// scenario is only registered for the release harness; everything else is the `c18` executor.
pub fn gen_long(rng: &mut Prng, plan: &mut Plan) {
    let wide = rng.chance(1, 3);
    let bits = if wide { rng.range(33, 64) } else { rng.range(2, 32) };
    let mut b = RefNat::from_u128(((rng.next_u64() as u128) << 64 | rng.next_u64() as u128) & ((1u128 << bits) - 1) | (1u128 << (bits - 1)));
    if b == RefNat::one().shl(bits - 1) {
        b = b.add_small(1); // not a power of two: all-ones candidates must be rejected
    }
    let rejections = (1u64 << 24) + rng.below(2000) + if rng.chance(1, 4) { 1 << 23 } else { 0 };
    let stuck = rejections * if wide { 8 } else { 4 };
    let mut words: Vec<u32> = Vec::new();
    script_for_bound(rng, &b, &mut words);
    for _ in 0..8 {
        words.push(rng.next_u32());
    }
    let step = match rng.below(5) {
        0 => push_nat(Step::new("below"), "b", &b),
        1 => push_nat(push_nat(Step::new("urange"), "l", &RefNat::from_u128(7)), "u", &b.add_small(7)),
        2 => push_nat(push_nat(Step::new("uniform_u"), "l", &RefNat::zero()), "u", &b).i("count", 1).i("be", rng.below(3) as i128),
        3 => push_int(push_int(Step::new("irange"), "l", &RefInt::new(true, RefNat::from_u128(5))), "u", &RefInt::new(false, b.sub(&RefNat::from_u128(5)).unwrap_or(RefNat::one()))),
        _ => push_int(push_int(Step::new("sample_single_i"), "l", &RefInt::new(true, b.clone())), "u", &RefInt::new(false, RefNat::zero())),
    };
    plan.cfg = Step::new("cfg").i("fail_at", -1).i("stuck", stuck as i128).l32("words", &words);
    plan.steps = vec![step];
}

// ---- reference model of the documented stream function ----------------------------------------

fn model_biguint(r: &SimRng, pos: usize, n: u64) -> (RefNat, usize) {
    let len = ((n + 31) / 32) as usize;
    let rem = (n % 32) as u32;
    let mut w: Vec<u32> = (0..len).map(|i| r.word_at(pos, i)).collect();
    if rem > 0 {
        let t = len - 1;
        w[t] >>= 32 - rem;
    }
    (RefNat::from_u32s(&w), pos + 4 * len)
}

/// First candidate of `bits(b)` bits, in stream order, that is below `b`.
fn model_below(r: &SimRng, mut pos: usize, b: &RefNat) -> (RefNat, usize, u64) {
    let bits = b.bits();
    let mut retries = 0;
    loop {
        let (c, np) = model_biguint(r, pos, bits);
        pos = np;
        if c.cmp(b) == Ordering::Less {
            return (c, pos, retries);
        }
        retries += 1;
        assert!(retries < 40_000_000, "model: stream never heals");
    }
}

fn n_class(n: u64) -> u64 {
    match n {
        0 => 0,
        _ if n % 64 == 0 => 1,
        _ if n % 32 == 0 => 2,
        _ if n % 64 < 32 => 3,
        _ => 4,
    }
}

fn bound_class(b: &RefNat) -> u64 {
    if b.is_zero() {
        return 0;
    }
    let bits = b.bits();
    let p = RefNat::one().shl(bits - 1);
    let shape = if *b == p {
        1
    } else if *b == p.add_small(1) {
        2
    } else if b.add_small(1) == p.shl(1) {
        3
    } else {
        4
    };
    shape * 8 + n_class(bits)
}

// ---- execution --------------------------------------------------------------------------------

pub fn exec(plan: &Plan) -> RunResult {
    let mut res = RunResult::default();
    let mut dg = Digest::new();
    let words = plan.cfg.list32("words");
    let mut rng = SimRng::from_words(&words);
    rng.stuck_ones = plan.cfg.us("stuck");
    if rng.stuck_ones > 0 {
        res.fault("rng.stuck_ones");
    }
    let fail_at = plan.cfg.int("fail_at");
    if fail_at >= 0 {
        rng.fail_at = fail_at as u64;
    }
    for (si, s) in plan.steps.iter().enumerate() {
        at_step(si);
        res.steps += 1;
        let op = s.op.as_str();
        let pos0 = rng.pos;
        let fills0 = rng.fill_calls;
        let retry0 = num_bigint::__verif::read(num_bigint::__verif::RAND_RETRY_BELOW)
            + num_bigint::__verif::read(num_bigint::__verif::RAND_RETRY_BIGINT);
        macro_rules! bad {
            ($oracle:expr, $($arg:tt)*) => {{
                res.violate(P, $oracle, op, si, format!($($arg)*));
                res.digest = dg.0;
                return res;
            }};
        }
        // ---- what the documented behaviour is ------------------------------------------------
        enum Want {
            Panic(&'static str),
            U(Vec<RefNat>),          // exact values (one per sample)
            IExact(Vec<RefInt>),     // exact values
            IRange(RefNat),          // |v| < 2^n
        }
        let model_rng = rng.clone();
        let mut cover_key = String::from(op);
        let mut retries_model = 0u64;
        let want = match op {
            "gen_biguint" | "rbits_u" => {
                let n = s.u64("n");
                cover_key.push_str(&format!("|n{}", n_class(n)));
                Want::U(vec![model_biguint(&model_rng, pos0, n).0])
            }
            "gen_bigint" | "rbits_i" => {
                let n = s.u64("n");
                cover_key.push_str(&format!("|n{}", n_class(n)));
                Want::IRange(RefNat::one().shl(n))
            }
            "below" => {
                let b = get_nat(s, "b");
                cover_key.push_str(&format!("|b{}", bound_class(&b)));
                if b.is_zero() {
                    Want::Panic("zero bound")
                } else {
                    let (v, _, r) = model_below(&model_rng, pos0, &b);
                    retries_model = r;
                    Want::U(vec![v])
                }
            }
            "urange" | "sample_single_u" | "gen_range_u" | "uniform_u" => {
                let (l, u) = (get_nat(s, "l"), get_nat(s, "u"));
                let incl = s.int("incl") != 0;
                let count = s.int("count").max(1) as usize;
                let width = match u.sub(&l) {
                    None => None,
                    Some(w) => {
                        let w = if incl { w.add_small(1) } else { w };
                        if w.is_zero() {
                            None
                        } else {
                            Some(w)
                        }
                    }
                };
                cover_key.push_str(&format!(
                    "|l0{}|i{}|w{}",
                    l.is_zero(),
                    incl,
                    width.as_ref().map_or(0, bound_class)
                ));
                match width {
                    None => Want::Panic("empty or inverted range"),
                    Some(w) => {
                        let mut pos = pos0;
                        let mut vs = vec![];
                        for _ in 0..count {
                            let (v, np, r) = model_below(&model_rng, pos, &w);
                            retries_model += r;
                            pos = np;
                            vs.push(l.add(&v));
                        }
                        Want::U(vs)
                    }
                }
            }
            "irange" | "sample_single_i" | "gen_range_i" | "uniform_i" => {
                let (l, u) = (get_int(s, "l"), get_int(s, "u"));
                let incl = s.int("incl") != 0;
                let count = s.int("count").max(1) as usize;
                let d = u.sub(&l);
                let width = if d.neg {
                    None
                } else {
                    let w = if incl { d.mag.add_small(1) } else { d.mag.clone() };
                    if w.is_zero() {
                        None
                    } else {
                        Some(w)
                    }
                };
                cover_key.push_str(&format!(
                    "|l0{}|u0{}|ln{}|un{}|i{}|w{}",
                    l.is_zero(),
                    u.is_zero(),
                    l.neg,
                    u.neg,
                    incl,
                    width.as_ref().map_or(0, bound_class)
                ));
                match width {
                    None => Want::Panic("empty or inverted range"),
                    Some(w) => {
                        let mut pos = pos0;
                        let mut vs = vec![];
                        for _ in 0..count {
                            let (v, np, r) = model_below(&model_rng, pos, &w);
                            retries_model += r;
                            pos = np;
                            vs.push(l.add(&RefInt::new(false, v)));
                        }
                        Want::IExact(vs)
                    }
                }
            }
            "enum_below" => {
                // handled separately below
                Want::U(vec![])
            }
            other => {
                res.violate(P, "harness", other, si, "unknown op".into());
                return res;
            }
        };

        if op == "enum_below" {
            let b = s.u64("b").max(1);
            let bn = RefNat::from_u128(b as u128);
            let bits = bn.bits();
            let junk_mode = s.int("junk");
            let mut produced = vec![0u32; b as usize];
            for c in 0..(1u64 << bits) {
                let junk = match junk_mode {
                    0 => 0u32,
                    1 => (1u32 << (32 - bits)) - 1,
                    _ => (c as u32).wrapping_mul(0x9E37_79B9) & ((1u32 << (32 - bits)) - 1),
                };
                let w = ((c as u32) << (32 - bits)) | junk;
                let mut r = SimRng::from_words(&[w]);
                let lib = {
                    let bb = BigUint::from(b);
                    catch(|| r.gen_biguint_below(&bb))
                };
                let v = match lib {
                    Ok(v) => v,
                    Err(m) => bad!("unexpected-panic", "bound {b}, first candidate {c}: {m}"),
                };
                let got = denote_u(&v);
                let want_v = if c < b { c } else { 0 };
                dg.u64(got.to_u128().unwrap_or(u128::MAX) as u64);
                if got != RefNat::from_u128(want_v as u128) {
                    bad!(
                        "first-candidate",
                        "bound {b}: stream whose first {bits}-bit candidate is {c} (then zeros) gave {} (want {want_v})",
                        got.to_dec()
                    );
                }
                if c < b {
                    produced[c as usize] += 1;
                }
            }
            if produced.iter().any(|&k| k != 1) {
                bad!("equal-candidates", "bound {b}: accepted-candidate counts {produced:?}");
            }
            res.reach("tiny_bound_enumerated");
            res.cover.insert(fnv(format!("enum|{b}|{junk_mode}").as_bytes()));
            res.nontrivial = true;
            continue;
        }

        // ---- run the library -------------------------------------------------------------------
        #[derive(Debug)]
        enum Got {
            U(Vec<BigUint>),
            I(Vec<BigInt>),
        }
        let n = s.u64("n");
        let incl = s.int("incl") != 0;
        let count = s.int("count").max(1) as usize;
        let lib = {
            let r = &mut rng;
            match op {
                "gen_biguint" => catch(|| Got::U(vec![r.gen_biguint(n)])),
                "rbits_u" => catch(|| Got::U(vec![r.sample::<BigUint, _>(RandomBits::new(n))])),
                "gen_bigint" => catch(|| Got::I(vec![r.gen_bigint(n)])),
                "rbits_i" => {
                    let mut twin = r.clone();
                    twin.fail_at = u64::MAX;
                    catch(|| {
                        let a = twin.gen_bigint(n);
                        let b = r.sample::<BigInt, _>(RandomBits::new(n));
                        // encode the twin comparison as a second element
                        Got::I(vec![b, a])
                    })
                }
                "below" => {
                    let b = u_from_ref(&get_nat(s, "b"));
                    catch(|| Got::U(vec![r.gen_biguint_below(&b)]))
                }
                "urange" | "sample_single_u" | "gen_range_u" | "uniform_u" => {
                    let l = u_from_ref(&get_nat(s, "l"));
                    let u = u_from_ref(&get_nat(s, "u"));
                    catch(|| match op {
                        "urange" => Got::U(vec![r.gen_biguint_range(&l, &u)]),
                        "sample_single_u" => {
                            if incl {
                                Got::U(vec![UniformBigUint::sample_single_inclusive(&l, &u, r)])
                            } else {
                                Got::U(vec![UniformBigUint::sample_single(&l, &u, r)])
                            }
                        }
                        "gen_range_u" => {
                            if incl {
                                Got::U(vec![r.gen_range(l.clone()..=u.clone())])
                            } else {
                                Got::U(vec![r.gen_range(l.clone()..u.clone())])
                            }
                        }
                        _ => {
                            let be = s.int("be");
                            if be > 0 {
                                // the back-end sampler used directly as a long-lived value; `clone_from` into a sampler that
                                // was built for another (narrower / wider) range must leave no trace of that range
                                let d = if incl { UniformBigUint::new_inclusive(&l, &u) } else { UniformBigUint::new(&l, &u) };
                                let mut d2 = match be {
                                    1 => d.clone(),
                                    2 => UniformBigUint::new(&BigUint::from(0u8), &BigUint::from(2u8)),
                                    _ => UniformBigUint::new_inclusive(&l, &((&u + 1u8) << (200 + (count as u32) * 64))),
                                };
                                d2.clone_from(&d);
                                return Got::U((0..count).map(|i| if i % 2 == 0 { d2.sample(r) } else { d.sample(r) }).collect());
                            }
                            let d = if incl {
                                Uniform::new_inclusive(&l, &u)
                            } else {
                                Uniform::new(&l, &u)
                            };
                            // samplers are values: a clone must behave like the original, and sampling must not wear them out
                            let d2 = d.clone();
                            Got::U((0..count).map(|i| if i % 2 == 1 { d2.sample(r) } else { d.sample(r) }).collect())
                        }
                    })
                }
                _ => {
                    let l = i_from_ref(&get_int(s, "l"));
                    let u = i_from_ref(&get_int(s, "u"));
                    catch(|| match op {
                        "irange" => Got::I(vec![r.gen_bigint_range(&l, &u)]),
                        "sample_single_i" => {
                            if incl {
                                Got::I(vec![UniformBigInt::sample_single_inclusive(&l, &u, r)])
                            } else {
                                Got::I(vec![UniformBigInt::sample_single(&l, &u, r)])
                            }
                        }
                        "gen_range_i" => {
                            if incl {
                                Got::I(vec![r.gen_range(l.clone()..=u.clone())])
                            } else {
                                Got::I(vec![r.gen_range(l.clone()..u.clone())])
                            }
                        }
                        _ => {
                            let be = s.int("be");
                            if be > 0 {
                                let d = if incl { UniformBigInt::new_inclusive(&l, &u) } else { UniformBigInt::new(&l, &u) };
                                let mut d2 = match be {
                                    1 => d.clone(),
                                    2 => UniformBigInt::new(&BigInt::from(-1i8), &BigInt::from(1u8)),
                                    _ => UniformBigInt::new_inclusive(&(&l - (BigInt::from(1u8) << (200 + (count as u32) * 64))), &u),
                                };
                                d2.clone_from(&d);
                                return Got::I((0..count).map(|i| if i % 2 == 0 { d2.sample(r) } else { d.sample(r) }).collect());
                            }
                            let d = if incl {
                                Uniform::new_inclusive(&l, &u)
                            } else {
                                Uniform::new(&l, &u)
                            };
                            let d2 = d.clone();
                            Got::I((0..count).map(|i| if i % 2 == 1 { d2.sample(r) } else { d.sample(r) }).collect())
                        }
                    })
                }
            }
        };
        let retries = num_bigint::__verif::read(num_bigint::__verif::RAND_RETRY_BELOW)
            + num_bigint::__verif::read(num_bigint::__verif::RAND_RETRY_BIGINT)
            - retry0;
        if retries > 0 {
            res.reach_n("rejection_retries", retries);
        }
        let rng_failed_now = rng.failed && fail_at >= 0 && (fills0..rng.fill_calls).contains(&(fail_at as u64));
        dg.u64(rng.pos as u64);
        // ---- judge -----------------------------------------------------------------------------
        match (&want, &lib) {
            (Want::Panic(why), Ok(g)) => {
                bad!("must-panic", "{why}: returned {g:?} instead of panicking")
            }
            (Want::Panic(_), Err(_)) => {
                res.fault("panic.documented");
                dg.u64(0xfa11);
                res.cover.insert(fnv(format!("{cover_key}|panic").as_bytes()));
                res.nontrivial = true;
                // the RNG state after an unwound call is unspecified; keep going from wherever it is
                continue;
            }
            (_, Err(m)) => {
                if rng_failed_now {
                    res.fault("rng.error");
                    dg.u64(0xe44);
                    res.cover.insert(fnv(format!("{cover_key}|rngerr").as_bytes()));
                    res.nontrivial = true;
                    continue;
                }
                bad!("unexpected-panic", "pos {pos0}: {m}")
            }
            (_, Ok(g)) => {
                if rng_failed_now {
                    bad!(
                        "rng-error-swallowed",
                        "try_fill_bytes returned Err during this call but a value came back: {g:?}"
                    );
                }
            }
        }
        let g = lib.unwrap();
        match (&want, &g) {
            (Want::U(ws), Got::U(vs)) => {
                for (i, v) in vs.iter().enumerate() {
                    if let Some(d) = noncanonical_u(v) {
                        bad!("canonical", "result {i}: {d}");
                    }
                    let dv = denote_u(v);
                    dg.u32s(&dv.0);
                    // bounds first (the primary clause), then the exact stream function
                    match op {
                        "gen_biguint" | "rbits_u" => {
                            if dv.bits() > n {
                                bad!("bound", "gen_biguint({n}) returned {} bits: {}", dv.bits(), dv.to_hex());
                            }
                        }
                        "below" => {
                            let b = get_nat(s, "b");
                            if dv.cmp(&b) != Ordering::Less {
                                bad!("bound", "gen_biguint_below({}) returned {}", b.to_hex(), dv.to_hex());
                            }
                        }
                        _ => {
                            let (l, u) = (get_nat(s, "l"), get_nat(s, "u"));
                            let hi_ok = if incl { dv.cmp(&u) != Ordering::Greater } else { dv.cmp(&u) == Ordering::Less };
                            if dv.cmp(&l) == Ordering::Less || !hi_ok {
                                bad!(
                                    "bound",
                                    "range [{}, {}{} returned {}",
                                    l.to_hex(),
                                    u.to_hex(),
                                    if incl { "]" } else { ")" },
                                    dv.to_hex()
                                );
                            }
                        }
                    }
                    if dv != ws[i] {
                        bad!(
                            "stream-function",
                            "sample {i} from stream position {pos0}: got {} but the documented function of the stream gives {}",
                            dv.to_hex(),
                            ws[i].to_hex()
                        );
                    }
                    if matches!(op, "gen_biguint" | "rbits_u") && rng.pos != pos0 + 4 * ((n as usize + 31) / 32) {
                        bad!(
                            "stream-consumption",
                            "gen_biguint({n}) consumed {} bytes of the stream, the documented function uses the first {} 32-bit words",
                            rng.pos - pos0,
                            (n + 31) / 32
                        );
                    }
                }
            }
            (Want::IExact(ws), Got::I(vs)) => {
                for (i, v) in vs.iter().enumerate() {
                    if let Some(d) = noncanonical_i(v) {
                        bad!("canonical", "result {i}: {d}");
                    }
                    let dv = denote_i(v);
                    dg.u32s(&dv.mag.0);
                    dg.u64(dv.neg as u64);
                    let (l, u) = (get_int(s, "l"), get_int(s, "u"));
                    let hi_ok = if incl { dv.cmp(&u) != Ordering::Greater } else { dv.cmp(&u) == Ordering::Less };
                    if dv.cmp(&l) == Ordering::Less || !hi_ok {
                        bad!(
                            "bound",
                            "range [{}, {}{} returned {}",
                            l.to_dec(),
                            u.to_dec(),
                            if incl { "]" } else { ")" },
                            dv.to_dec()
                        );
                    }
                    if dv != ws[i] {
                        bad!(
                            "stream-function",
                            "sample {i} from stream position {pos0}: got {} want low + first candidate below the width = {}",
                            dv.to_dec(),
                            ws[i].to_dec()
                        );
                    }
                }
            }
            (Want::IRange(lim), Got::I(vs)) => {
                for (i, v) in vs.iter().enumerate() {
                    if let Some(d) = noncanonical_i(v) {
                        bad!("canonical", "result {i}: {d}");
                    }
                    let dv = denote_i(v);
                    dg.u32s(&dv.mag.0);
                    dg.u64(dv.neg as u64);
                    if dv.mag.cmp(lim) != Ordering::Less {
                        bad!("bound", "gen_bigint({n}) returned {} (|v| >= 2^{n})", dv.to_dec());
                    }
                }
                if op == "rbits_i" && denote_i(&vs[0]) != denote_i(&vs[1]) {
                    bad!(
                        "randombits-match",
                        "RandomBits({n}) sampled {} but gen_bigint({n}) on an identical RNG gives {}",
                        denote_i(&vs[0]).to_dec(),
                        denote_i(&vs[1]).to_dec()
                    );
                }
            }
            _ => bad!("harness", "result kind mismatch"),
        }
        let nontrivial = retries > 0 || retries_model > 0 || cover_key.contains("l0true") || cover_key.contains("u0true");
        if nontrivial {
            res.nontrivial = true;
            if cover_key.contains("l0true") {
                res.reach("lbound_zero_branch");
            }
            if cover_key.contains("u0true") {
                res.reach("ubound_zero_branch");
            }
            res.cover.insert(fnv(format!("{cover_key}|r{}", retries.min(3)).as_bytes()));
        }
        if rng.healed() {
            res.reach("stream_healed");
        }
    }
    if fail_at >= 0 && !rng.failed {
        // configured fault never fired: not counted
    }
    res.digest = dg.0;
    res
}
