//! Execution of a register-machine history with the oracles of C04 / C14 / C15 selected by flags.
//! Every scenario built on the machine shares this loop; each *check* only evaluates its own oracles
//! (plus the global C14 invariant: no panic, signal or hang outside the documented failure set).

use crate::obs::{denote_i, denote_u, noncanonical_i, noncanonical_u, raw64};
use crate::plan::{fnv, Digest, Plan, Step};
use crate::refnat::{RefInt, RefNat};
use crate::regs::{reset_written, Expect, Machine, Obs, NI, NU};
use crate::simalloc;
use crate::sup::{at_step, catch, RunResult};
use num_bigint::{BigInt, BigUint, Sign};
use num_traits::Zero;
use std::cmp::Ordering;
use std::collections::hash_map::DefaultHasher;
use std::hash::{Hash, Hasher};

#[derive(Clone, Copy, Debug, Default)]
pub struct Opts {
    /// canonical form + indistinguishability of equal denotations + order (C04)
    pub c04: bool,
    /// ASCII validity of produced text, borrowed operands unchanged (C15)
    pub c15: bool,
    /// run library calls under the guarded / garbage / always-moving allocator
    pub guard_alloc: bool,
    /// protect the buffers of registers that a step only borrows (mprotect read-only) — C15 thorough
    pub protect_borrowed: bool,
    /// count cover keys for the scenario named here
    pub cover: Cover,
    /// fault model "unwound operation, object kept": the `&mut` receiver of a documented-failure operation is NOT
    /// re-initialised after the panic but stays in the machine in whatever state the unwinding left it, and later
    /// steps keep using it. Nothing is promised about the *value* of such an object or of anything computed from it
    /// (taint is propagated and value / failure-class oracles are off for tainted steps), but the memory-safety
    /// oracles stay on: no signal, no guard-page hit, borrowed operands untouched, text still ASCII.
    pub keep_unwound: bool,
    /// after every step, every object the step wrote is serialized with the token recorder of `scn_c17`, compared
    /// with the portable form of the integer it denotes, and read back (C17 over value histories)
    pub c17: bool,
}

#[derive(Clone, Copy, Debug, Default, PartialEq)]
pub enum Cover {
    #[default]
    None,
    C04,
    C14,
    C15,
    C16,
    C17,
}

fn hash_of<T: Hash>(x: &T) -> u64 {
    let mut h = DefaultHasher::new();
    x.hash(&mut h);
    h.finish()
}

fn len_class(words: usize) -> u64 {
    match words {
        0 => 0,
        1..=2 => 1,
        3..=8 => 2,
        9..=12 => 3,
        13..=60 => 4,
        61..=70 => 5,
        71..=140 => 6,
        141..=500 => 7,
        501..=530 => 8,
        _ => 9,
    }
}

pub fn op_key(s: &Step) -> String {
    format!("{}:{}:{}", s.op, s.str("o"), s.int("f"))
}

fn text_ok(txt: &str, radix: u32, upper: bool) -> Result<(), String> {
    if std::str::from_utf8(txt.as_bytes()).is_err() {
        return Err("not valid UTF-8".into());
    }
    if radix != u32::MAX && !txt.is_ascii() {
        return Err("non-ASCII byte in produced text".into());
    }
    if radix == u32::MAX {
        // formatted with a non-ASCII fill character: still valid UTF-8 (checked above), everything else ASCII
        if let Some(c) = txt.chars().find(|c| !c.is_ascii() && !"\u{2665}\u{e9}\u{2192}\u{1f600}".contains(*c)) {
            return Err(format!("unexpected character {c:?}"));
        }
        return Ok(());
    }
    if radix == 0 {
        // formatted with flags: any of sign, prefix, fill, digits
        if let Some(c) = txt.chars().find(|c| !(c.is_ascii_alphanumeric() || " +-#".contains(*c))) {
            return Err(format!("unexpected character {c:?}"));
        }
        return Ok(());
    }
    let body = txt.strip_prefix('-').unwrap_or(txt);
    if body.is_empty() {
        return Err("empty digit string".into());
    }
    for c in body.chars() {
        let ok = match c.to_digit(radix) {
            Some(_) => {
                if c.is_ascii_digit() {
                    true
                } else if upper {
                    c.is_ascii_uppercase()
                } else {
                    c.is_ascii_lowercase()
                }
            }
            None => false,
        };
        if !ok {
            return Err(format!("character {c:?} is not a digit of radix {radix}{}", if upper { " (upper case)" } else { "" }));
        }
    }
    Ok(())
}

struct Shadow {
    u: Vec<Vec<u64>>,
    i: Vec<(Sign, Vec<u64>)>,
}

impl Shadow {
    fn of(m: &Machine) -> Shadow {
        Shadow {
            u: m.u.iter().map(raw64).collect(),
            i: m.i.iter().map(|x| (x.sign(), raw64(x.magnitude()))).collect(),
        }
    }
}

/// C04 oracle over all live objects and archived snapshots.
fn check_c04(
    m: &Machine,
    arch_u: &[BigUint],
    arch_i: &[BigInt],
    wrote_u: u8,
    wrote_i: u8,
    step: &Step,
    si: usize,
    prov_u: &[u64],
    prov_i: &[u64],
    res: &mut RunResult,
) -> bool {
    let api = op_key(step);
    // 1. canonical form of everything the step wrote (everything else was checked before)
    for (r, x) in m.u.iter().enumerate() {
        if wrote_u & (1 << r) == 0 {
            continue;
        }
        if let Some(d) = noncanonical_u(x) {
            res.violate("C04", "canonical", &api, si, format!("BigUint register {r}: {d}"));
            return false;
        }
        let den = denote_u(x);
        let ok = catch(|| {
            let mut why = None;
            if x.is_zero() != den.is_zero() {
                why = Some(format!("is_zero() = {} for {}", x.is_zero(), den.to_hex()));
            } else if x.bits() != den.bits() {
                why = Some(format!("bits() = {} for {}", x.bits(), den.to_hex()));
            } else if x.to_u32_digits() != den.0 {
                why = Some(format!("to_u32_digits() = {:x?} for {}", x.to_u32_digits(), den.to_hex()));
            } else if x.to_bytes_le() != den.to_bytes_le() {
                why = Some(format!("to_bytes_le() = {:x?} for {}", x.to_bytes_le(), den.to_hex()));
            }
            why
        });
        match ok {
            Ok(None) => {}
            Ok(Some(w)) => {
                res.violate("C04", "export-follows-value", &api, si, format!("BigUint register {r}: {w}"));
                return false;
            }
            Err(p) => {
                res.violate("C04", "observer-panic", &api, si, format!("BigUint register {r}: {p}"));
                return false;
            }
        }
    }
    for (r, x) in m.i.iter().enumerate() {
        if wrote_i & (1 << r) == 0 {
            continue;
        }
        if let Some(d) = noncanonical_i(x) {
            res.violate("C04", "canonical", &api, si, format!("BigInt register {r}: {d}"));
            return false;
        }
        let den = denote_i(x);
        let ok = catch(|| {
            let mut why = None;
            if x.is_zero() != den.is_zero() {
                why = Some(format!("is_zero() = {} for {}", x.is_zero(), den.to_dec()));
            } else if (x.sign() == Sign::NoSign) != den.is_zero() {
                why = Some(format!("sign() = {:?} for {}", x.sign(), den.to_dec()));
            } else if x.bits() != den.mag.bits() {
                why = Some(format!("bits() = {} for {}", x.bits(), den.to_dec()));
            } else if x.to_u32_digits().1 != den.mag.0 {
                why = Some(format!("to_u32_digits() = {:x?} for {}", x.to_u32_digits(), den.to_dec()));
            } else if x.to_signed_bytes_le() != den.to_signed_bytes_le() {
                why = Some(format!("to_signed_bytes_le() = {:x?} for {}", x.to_signed_bytes_le(), den.to_dec()));
            }
            why
        });
        match ok {
            Ok(None) => {}
            Ok(Some(w)) => {
                res.violate("C04", "export-follows-value", &api, si, format!("BigInt register {r}: {w}"));
                return false;
            }
            Err(p) => {
                res.violate("C04", "observer-panic", &api, si, format!("BigInt register {r}: {p}"));
                return false;
            }
        }
    }
    // 2. groups of equal denotation must be indistinguishable; different ones ordered numerically
    //    (objects: registers first, then archive; provenance = last operation that wrote them)
    let us: Vec<(&BigUint, u64, bool)> = m
        .u
        .iter()
        .enumerate()
        .map(|(r, x)| (x, prov_u[r], wrote_u & (1 << r) != 0))
        .chain(arch_u.iter().map(|x| (x, 1u64, false)))
        .collect();
    let is: Vec<(&BigInt, u64, bool)> = m
        .i
        .iter()
        .enumerate()
        .map(|(r, x)| (x, prov_i[r], wrote_i & (1 << r) != 0))
        .chain(arch_i.iter().map(|x| (x, 1u64, false)))
        .collect();
    let r = catch(|| -> Option<(String, String)> {
        // BigUint
        let dens: Vec<RefNat> = us.iter().map(|t| denote_u(t.0)).collect();
        for a in 0..us.len() {
            for b in (a + 1)..us.len() {
                if !(us[a].2 || us[b].2) {
                    continue; // neither changed in this step: pair already judged
                }
                let (x, y) = (us[a].0, us[b].0);
                let want = dens[a].cmp(&dens[b]);
                let got = x.cmp(y);
                if got != want || x.partial_cmp(y) != Some(want) {
                    return Some(("order".into(), format!("cmp({}, {}) = {:?}, numerically {:?}", dens[a].to_hex(), dens[b].to_hex(), got, want)));
                }
                if (x == y) != (want == Ordering::Equal) || (x != y) == (want == Ordering::Equal) {
                    return Some(("eq".into(), format!("{} == {} gives {}", dens[a].to_hex(), dens[b].to_hex(), x == y)));
                }
                if (x < y) != (want == Ordering::Less) || (x >= y) == (want == Ordering::Less) {
                    return Some(("order".into(), format!("{} < {} gives {}", dens[a].to_hex(), dens[b].to_hex(), x < y)));
                }
                if want == Ordering::Equal {
                    if hash_of(x) != hash_of(y) {
                        return Some(("hash".into(), format!("equal values {} hash differently", dens[a].to_hex())));
                    }
                    if x.to_u64_digits() != y.to_u64_digits() || x.to_bytes_be() != y.to_bytes_be() {
                        return Some(("exports".into(), format!("equal values {} export different digits/bytes", dens[a].to_hex())));
                    }
                    if dens[a].0.len() <= 80 && (x.to_str_radix(10) != y.to_str_radix(10) || format!("{:x}", x) != format!("{:x}", y) || x.to_str_radix(7) != y.to_str_radix(7)) {
                        return Some(("exports".into(), format!("equal values {} print differently", dens[a].to_hex())));
                    }
                } else {
                    let mx = if want == Ordering::Less { y } else { x };
                    if std::cmp::max(x, y) != mx || std::cmp::min(x, y) == mx {
                        return Some(("order".into(), format!("max/min of {} and {} wrong", dens[a].to_hex(), dens[b].to_hex())));
                    }
                }
            }
        }
        // BigInt
        let deni: Vec<RefInt> = is.iter().map(|t| denote_i(t.0)).collect();
        for a in 0..is.len() {
            for b in (a + 1)..is.len() {
                if !(is[a].2 || is[b].2) {
                    continue;
                }
                let (x, y) = (is[a].0, is[b].0);
                let want = deni[a].cmp(&deni[b]);
                let got = x.cmp(y);
                if got != want || x.partial_cmp(y) != Some(want) {
                    return Some(("order".into(), format!("cmp({}, {}) = {:?}, numerically {:?}", deni[a].to_dec(), deni[b].to_dec(), got, want)));
                }
                if (x == y) != (want == Ordering::Equal) || (x != y) == (want == Ordering::Equal) {
                    return Some(("eq".into(), format!("{} == {} gives {}", deni[a].to_dec(), deni[b].to_dec(), x == y)));
                }
                if (x < y) != (want == Ordering::Less) || (x >= y) == (want == Ordering::Less) {
                    return Some(("order".into(), format!("{} < {} gives {}", deni[a].to_dec(), deni[b].to_dec(), x < y)));
                }
                if want == Ordering::Equal {
                    if hash_of(x) != hash_of(y) {
                        return Some(("hash".into(), format!("equal values {} hash differently", deni[a].to_dec())));
                    }
                    if x.to_u64_digits() != y.to_u64_digits() || x.to_bytes_be() != y.to_bytes_be() || x.to_signed_bytes_be() != y.to_signed_bytes_be() {
                        return Some(("exports".into(), format!("equal values {} export different digits/bytes", deni[a].to_dec())));
                    }
                    if deni[a].mag.0.len() <= 80 && (x.to_str_radix(10) != y.to_str_radix(10) || format!("{:x}", x) != format!("{:x}", y)) {
                        return Some(("exports".into(), format!("equal values {} print differently", deni[a].to_dec())));
                    }
                } else {
                    let mx = if want == Ordering::Less { y } else { x };
                    if std::cmp::max(x, y) != mx {
                        return Some(("order".into(), format!("max of {} and {} wrong", deni[a].to_dec(), deni[b].to_dec())));
                    }
                }
            }
        }
        // cross-type: a BigUint and a BigInt denoting the same integer
        for a in 0..us.len().min(NU) {
            for b in 0..is.len().min(NI) {
                if !(us[a].2 || is[b].2) {
                    continue;
                }
                if !deni[b].neg && deni[b].mag == dens[a] {
                    let lifted = BigInt::from(us[a].0.clone());
                    if &lifted != is[b].0 || hash_of(&lifted) != hash_of(is[b].0) {
                        return Some(("eq".into(), format!("BigInt::from(BigUint {}) differs from the BigInt with the same value", dens[a].to_hex())));
                    }
                }
            }
        }
        // sort() of everything by the library's Ord must be numerically non-decreasing
        let mut v: Vec<&BigInt> = is.iter().map(|t| t.0).collect();
        v.reverse();
        v.sort();
        for w in v.windows(2) {
            if denote_i(w[0]).cmp(&denote_i(w[1])) == Ordering::Greater {
                return Some(("order".into(), format!("sort() put {} before {}", denote_i(w[0]).to_dec(), denote_i(w[1]).to_dec())));
            }
        }
        let mut v: Vec<&BigUint> = us.iter().map(|t| t.0).collect();
        v.reverse();
        v.sort();
        for w in v.windows(2) {
            if denote_u(w[0]).cmp(&denote_u(w[1])) == Ordering::Greater {
                return Some(("order".into(), format!("sort() put {} before {}", denote_u(w[0]).to_hex(), denote_u(w[1]).to_hex())));
            }
        }
        None
    });
    match r {
        Ok(None) => {}
        Ok(Some((oracle, detail))) => {
            res.violate("C04", &oracle, &api, si, detail);
            return false;
        }
        Err(p) => {
            // a debug_assert!(last != 0) inside eq/cmp/hash firing is exactly a C04 observation
            res.violate("C04", "observer-panic", &api, si, p);
            return false;
        }
    }
    // reach: an equality group whose members have different provenance
    let mut seen_equal = false;
    for a in 0..us.len() {
        for b in (a + 1)..us.len() {
            if (us[a].2 || us[b].2) && us[a].1 != us[b].1 && !us[a].0.is_zero() && denote_u(us[a].0) == denote_u(us[b].0) {
                seen_equal = true;
            }
        }
    }
    for a in 0..is.len() {
        for b in (a + 1)..is.len() {
            if (is[a].2 || is[b].2) && is[a].1 != is[b].1 && !is[a].0.is_zero() && denote_i(is[a].0) == denote_i(is[b].0) {
                seen_equal = true;
            }
        }
    }
    if seen_equal {
        res.reach("equal_values_different_history");
        res.nontrivial = true;
    }
    true
}

/// Registers a step names (conservatively: every index field, in both register files, plus the extra
/// destinations of the multi-result operations) and the registers it may write when it unwinds.
fn named_masks(s: &Step) -> (u8, u8) {
    let mut mu = 0u8;
    let mut mi = 0u8;
    for k in ["a", "b", "c", "d"] {
        let x = s.us(k);
        mu |= 1 << (x % NU);
        mi |= 1 << (x % NI);
    }
    let (du, di) = dest_masks(s);
    (mu | du, mi | di)
}

fn dest_masks(s: &Step) -> (u8, u8) {
    let d = s.us("d");
    let mut mu = 0u8;
    let mut mi = 0u8;
    for j in 0..3 {
        mu |= 1 << ((d + j) % NU);
        mi |= 1 << ((d + j) % NI);
    }
    if s.op.ends_with(".swap") {
        mu |= 1 << (s.us("a") % NU);
        mi |= 1 << (s.us("a") % NI);
    }
    if s.op.starts_with("u.") {
        (mu, 0)
    } else {
        (0, mi)
    }
}

pub fn run_history(plan: &Plan, opts: Opts) -> RunResult {
    let mut res = RunResult::default();
    let mut dg = Digest::new();
    let mut m = Machine::new();
    let mut arch_u: Vec<BigUint> = Vec::new();
    let mut arch_i: Vec<BigInt> = Vec::new();
    let mut prov_u = vec![0u64; NU];
    let mut prov_i = vec![0u64; NI];
    let mut shadow = Shadow::of(&m);
    // registers holding an object left behind by an unwound operation, or anything computed from one
    let mut poison_u = 0u8;
    let mut poison_i = 0u8;
    if opts.guard_alloc {
        simalloc::begin_run(plan.hash());
    }
    for (si, s) in plan.steps.iter().enumerate() {
        at_step(si);
        let op = s.op.as_str();
        if op.starts_with("snap.") && (poison_u | poison_i) != 0 {
            continue;
        }
        if op == "snap.u" {
            if arch_u.len() < 10 {
                arch_u.push(m.u[s.us("a") % NU].clone());
            }
            continue;
        }
        if op == "snap.i" {
            if arch_i.len() < 10 {
                arch_i.push(m.i[s.us("a") % NI].clone());
            }
            continue;
        }
        let tainted = opts.keep_unwound && {
            let (nu, ni) = named_masks(s);
            (nu & poison_u) != 0 || (ni & poison_i) != 0
        };
        if tainted {
            // taint and transcript are settled here, before anything that looks at the contents of an unwound object
            // (whether the step is skipped, returns or panics may differ between builds: debug assertions)
            let (nu, ni) = named_masks(s);
            poison_u |= nu;
            poison_i |= ni;
            dg.u64(0x7a1);
        }
        if tainted
            && (matches!(op, "u.int" | "i.int" | "u.root" | "i.root" | "u.modpow" | "i.modpow" | "u.modinv" | "i.modinv" | "u.pow" | "i.pow" | "u.powbig" | "u.rand" | "i.rand")
                || (op.ends_with(".checked") && s.str("o") == "pow"))
        {
            // iterate-until-zero / until-converged algorithms: their termination argument assumes well-formed
            // values, and nothing (not even termination) is promised for unwound objects
            res.reach("skipped_steps");
            continue;
        }
        let exp = if tainted { catch(|| m.expect(s)).unwrap_or(Expect::Skip) } else { m.expect(s) };
        if exp == Expect::Skip {
            res.reach("skipped_steps");
            continue;
        }
        res.steps += 1;
        let mut obs = Obs::default();
        let api = op_key(s);
        // --- execute -------------------------------------------------------------------------
        let mut protected: Vec<(usize, usize)> = Vec::new();
        if opts.guard_alloc {
            simalloc::set_mode(simalloc::GUARD);
            if opts.protect_borrowed && !tainted {
                // (not for steps over unwound objects: an object without a buffer of its own would make `last_alloc` name a foreign block)
                // give the registers this step only borrows their own read-only pages
                let d = s.us("d");
                let is_u = op.starts_with("u.");
                for r in 0..(if is_u { NU } else { NI }) {
                    if r == d % (if is_u { NU } else { NI }) {
                        continue;
                    }
                    let named = [s.us("a"), s.us("b"), s.us("c")].iter().any(|&x| x % (if is_u { NU } else { NI }) == r);
                    if !named {
                        continue;
                    }
                    // re-home the operand: a fresh clone lives alone on guarded pages
                    if is_u {
                        if m.u[r].is_zero() {
                            continue;
                        }
                        let c = m.u[r].clone();
                        let (p, sz) = simalloc::last_alloc();
                        m.u[r] = c;
                        if s.int("mv") == 0 || s.int("f") == 0 {
                            if simalloc::set_readonly(p, sz, true) {
                                protected.push((p, sz));
                            }
                        }
                    } else {
                        if m.i[r].is_zero() {
                            continue;
                        }
                        let c = m.i[r].clone();
                        let (p, sz) = simalloc::last_alloc();
                        m.i[r] = c;
                        if s.int("mv") == 0 || s.int("f") == 0 {
                            if simalloc::set_readonly(p, sz, true) {
                                protected.push((p, sz));
                            }
                        }
                    }
                }
            }
        }
        if tainted {
            // safety net for the rule above: a hang in such a step abandons the run without a verdict
            crate::sup::TOLERATE_HANG.store(true, std::sync::atomic::Ordering::Relaxed);
            crate::sup::arm_watchdog(2);
        }
        let out = catch(|| m.apply(s, &mut dg, &mut obs));
        if tainted {
            crate::sup::arm_watchdog(crate::sup::watchdog_secs());
            crate::sup::TOLERATE_HANG.store(false, std::sync::atomic::Ordering::Relaxed);
        }
        if op.ends_with(".arrive") && !obs.skipped {
            res.fault(match s.int("f") {
                0 => "arrival.rng_stream",
                1 => "arrival.serde_tokens",
                2 | 3 => "arrival.unstructured_bytes",
                4 => "arrival.quickcheck_gen",
                _ => "arrival.quickcheck_shrink",
            });
        }
        for (p, sz) in protected.drain(..) {
            simalloc::set_readonly(p, sz, false);
            res.fault("alloc.readonly_operand");
        }
        if opts.guard_alloc {
            simalloc::set_mode(simalloc::PLAIN);
        }
        if tainted {
            // a step over an unwound object: returning and panicking are both acceptable, values are unspecified;
            // what was written is tainted as well. Only the memory-safety oracles below apply.
            res.fault("unwound.object_reused");
            // (taint and transcript must not depend on whether the step returned or panicked: debug assertions make
            // that differ between builds, and the same plan must give the same transcript in every build)
            poison_u |= obs.wrote_u;
            poison_i |= obs.wrote_i;
            if out.is_err() {
                obs.wrote_u = 0xff;
                obs.wrote_i = 0xff;
                obs.texts.clear();
            }
            if opts.c15 {
                for (txt, radix, _) in &obs.texts {
                    // (digit strings of an unspecified value: only the alphabet is judged - valid UTF-8, ASCII apart
                    // from the fill characters the step itself asked for)
                    let fills = "\u{2665}\u{e9}\u{2192}\u{1f600}";
                    if std::str::from_utf8(txt.as_bytes()).is_err() || txt.chars().any(|c| !c.is_ascii() && !(*radix == u32::MAX && fills.contains(c))) {
                        res.violate("C15", "ascii", &api, si, format!("non-ASCII text from an unwound object: {:?}", &txt.as_bytes()[..txt.len().min(80)]));
                        res.digest = dg.0;
                        return res;
                    }
                }
                for r in 0..NU {
                    if obs.wrote_u & (1 << r) == 0 && raw64(&m.u[r]) != shadow.u[r] {
                        res.violate("C15", "borrowed-operand-modified", &api, si, format!("BigUint register {r} changed although the step only borrowed it"));
                        res.digest = dg.0;
                        return res;
                    }
                }
                for r in 0..NI {
                    if obs.wrote_i & (1 << r) == 0 && (m.i[r].sign(), raw64(m.i[r].magnitude())) != shadow.i[r] {
                        res.violate("C15", "borrowed-operand-modified", &api, si, format!("BigInt register {r} changed although the step only borrowed it"));
                        res.digest = dg.0;
                        return res;
                    }
                }
            }
            for r in 0..NU {
                if obs.wrote_u & (1 << r) != 0 {
                    shadow.u[r] = raw64(&m.u[r]);
                }
            }
            for r in 0..NI {
                if obs.wrote_i & (1 << r) != 0 {
                    shadow.i[r] = (m.i[r].sign(), raw64(m.i[r].magnitude()));
                }
            }
            continue;
        }
        // --- the global C14 invariant ---------------------------------------------------------
        match (&exp, &out) {
            (Expect::Panic(class), Ok(())) => {
                res.violate("C14", "must-panic", &api, si, format!("documented failure ({class}) returned normally: {}", s.render()));
                res.digest = dg.0;
                return res;
            }
            (Expect::Panic(class), Err(_)) => {
                res.fault("panic.inject");
                dg.str(class);
                if opts.keep_unwound {
                    let (du, di) = dest_masks(s);
                    poison_u |= du;
                    poison_i |= di;
                    res.fault("unwound.object_kept");
                } else {
                    reset_written(&mut m, s);
                }
                obs.wrote_u = 0xff;
                obs.wrote_i = 0xff;
                if opts.cover == Cover::C14 {
                    res.cover.insert(fnv(format!("fail|{api}|{}|{class}", s.int("t")).as_bytes()));
                    res.nontrivial = true;
                }
            }
            (Expect::CheckedNone, Ok(())) => {
                if !obs.none {
                    res.violate("C14", "checked-must-be-none", &api, si, format!("checked variant returned Some in its failure case: {}", s.render()));
                    res.digest = dg.0;
                    return res;
                }
                res.fault("checked.none");
                dg.u64(0x4e4f4e45);
                if opts.cover == Cover::C14 {
                    res.cover.insert(fnv(format!("none|{api}").as_bytes()));
                    res.nontrivial = true;
                }
            }
            (Expect::CheckedNone, Err(msg)) => {
                res.violate("C14", "checked-panicked", &api, si, format!("{msg}: {}", s.render()));
                res.digest = dg.0;
                return res;
            }
            (Expect::Ok, Err(msg)) => {
                let (prop, oracle) = if opts.c04 && msg.contains("last() != Some(&0)") { ("C04", "debug-assert-noncanonical") } else { ("C14", "unexpected-panic") };
                res.violate(prop, oracle, &api, si, format!("{msg}: {}", s.render()));
                res.digest = dg.0;
                return res;
            }
            (Expect::Ok, Ok(())) => {
                if op.ends_with(".checked") && obs.none {
                    res.violate("C14", "checked-none-on-valid", &api, si, format!("checked variant returned None outside its failure case: {}", s.render()));
                    res.digest = dg.0;
                    return res;
                }
                dg.u64(obs.none as u64);
            }
            (Expect::Skip, _) => unreachable!(),
        }
        if opts.keep_unwound && !matches!((&exp, &out), (Expect::Panic(_), Err(_))) {
            // a clean step overwrote these registers with values computed from clean operands only
            poison_u &= !obs.wrote_u;
            poison_i &= !obs.wrote_i;
        }
        // --- C15 oracles ------------------------------------------------------------------------
        if opts.c15 {
            for (txt, radix, upper) in &obs.texts {
                if let Err(why) = text_ok(txt, *radix, *upper) {
                    res.violate("C15", "ascii", &api, si, format!("{why}: {:?}", &txt.as_bytes()[..txt.len().min(80)]));
                    res.digest = dg.0;
                    return res;
                }
            }
            for r in 0..NU {
                if obs.wrote_u & (1 << r) == 0 && raw64(&m.u[r]) != shadow.u[r] {
                    res.violate("C15", "borrowed-operand-modified", &api, si, format!("BigUint register {r} changed although the step only borrowed it: {:x?} -> {:x?}", shadow.u[r], raw64(&m.u[r])));
                    res.digest = dg.0;
                    return res;
                }
            }
            for r in 0..NI {
                if obs.wrote_i & (1 << r) == 0 && (m.i[r].sign(), raw64(m.i[r].magnitude())) != shadow.i[r] {
                    res.violate("C15", "borrowed-operand-modified", &api, si, format!("BigInt register {r} changed although the step only borrowed it"));
                    res.digest = dg.0;
                    return res;
                }
            }
        }
        // --- C04 oracles ------------------------------------------------------------------------
        let key = fnv(api.as_bytes());
        for r in 0..NU {
            if obs.wrote_u & (1 << r) != 0 {
                if opts.cover == Cover::C04 {
                    let w = raw64(&m.u[r]).len() * 2;
                    let cap = num_bigint::__verif::capacity_of(&m.u[r]);
                    let slack = if w == 0 { (cap > 0) as u64 } else { ((cap * 2) / w.max(1)).min(9) as u64 };
                    res.cover.insert(fnv(format!("{api}|{}|{}|{slack}", prov_u[r] % 997, len_class(w)).as_bytes()));
                }
                prov_u[r] = key;
            }
        }
        for r in 0..NI {
            if obs.wrote_i & (1 << r) != 0 {
                if opts.cover == Cover::C04 {
                    let w = raw64(m.i[r].magnitude()).len() * 2;
                    res.cover.insert(fnv(format!("{api}|{}|{}|{:?}", prov_i[r] % 997, len_class(w), m.i[r].sign()).as_bytes()));
                }
                prov_i[r] = key;
            }
        }
        #[cfg(feature = "opt")]
        if opts.c17 {
            let mut bad: Option<(&'static str, String)> = None;
            let r = catch(|| {
                let mut bad = None;
                for r in 0..NU {
                    if obs.wrote_u & (1 << r) != 0 && bad.is_none() {
                        bad = crate::scn_c17::history_oracle_u(&m.u[r]).map(|(o, d)| (o, format!("BigUint register {r}: {d}")));
                    }
                }
                for r in 0..NI {
                    if obs.wrote_i & (1 << r) != 0 && bad.is_none() {
                        bad = crate::scn_c17::history_oracle_i(&m.i[r]).map(|(o, d)| (o, format!("BigInt register {r}: {d}")));
                    }
                }
                bad
            });
            match r {
                Ok(b) => bad = b,
                Err(p) => bad = Some(("panic", format!("serialize / deserialize panicked: {p}"))),
            }
            if let Some((oracle, detail)) = bad {
                res.violate("C17", oracle, &api, si, detail);
                res.digest = dg.0;
                return res;
            }
            if opts.cover == Cover::C17 && (obs.wrote_u | obs.wrote_i) != 0 {
                res.nontrivial = true;
                res.cover.insert(fnv(format!("c17h|{api}").as_bytes()));
            }
        }
        if opts.c04 && !check_c04(&m, &arch_u, &arch_i, obs.wrote_u, obs.wrote_i, s, si, &prov_u, &prov_i, &mut res) {
            res.digest = dg.0;
            return res;
        }
        // --- transcript -------------------------------------------------------------------------
        for r in 0..NU {
            if obs.wrote_u & (1 << r) != 0 {
                shadow.u[r] = raw64(&m.u[r]);
                for w in &shadow.u[r] {
                    dg.u64(*w);
                }
                dg.u64(0x75);
            }
        }
        for r in 0..NI {
            if obs.wrote_i & (1 << r) != 0 {
                shadow.i[r] = (m.i[r].sign(), raw64(m.i[r].magnitude()));
                dg.u64(shadow.i[r].0 as u64);
                for w in &shadow.i[r].1 {
                    dg.u64(*w);
                }
                dg.u64(0x69);
            }
        }
    }
    for r in 0..NU {
        if poison_u & (1 << r) != 0 {
            m.u[r] = BigUint::default();
        }
    }
    for r in 0..NI {
        if poison_i & (1 << r) != 0 {
            m.i[r] = BigInt::default();
        }
    }
    m.state_digest(&mut dg);
    res.digest = dg.0;
    res
}
