//! C09 (b): export -> perturbing transport -> import, against byte/word reference models.
//! The simulation content is the transport (legal redundancy a peer may introduce: zero / sign
//! extension padding, odd word counts, truncation) and the reuse of history-laden buffers.

use crate::obs::{denote_i, denote_u, noncanonical_i, noncanonical_u};
use crate::plan::{fnv, Digest, Plan, Step};
use crate::prng::Prng;
use crate::refnat::{RefInt, RefNat};
use crate::sup::{at_step, catch, RunResult};
use num_bigint::{BigInt, BigUint, Sign};

const P: &str = "C09";

fn special_value(rng: &mut Prng) -> (Vec<u32>, bool) {
    let k = rng.range(1, 40);
    let p = RefNat::one().shl(8 * k - 1); // 2^(8k-1): where the signed encoding changes length
    let neg = rng.chance(1, 2);
    match rng.below(9) {
        0 => (p.0, neg),
        1 => (p.sub(&RefNat::one()).unwrap().0, neg),
        2 => (p.add_small(1).0, neg),
        3 => (RefNat::one().shl(rng.range(0, 700)).0, true), // negative power of two
        4 => (vec![], neg),
        5 => ({ let n_ = rng.range(1, 12) as usize; vec![u32::MAX; n_] }, neg),
        6 => {
            // top native digit with zero upper half
            let n = 2 * rng.range(0, 8) as usize + 1;
            (rng.digits32(n, true), neg)
        }
        7 => {
            let n = 2 * rng.range(1, 8) as usize;
            (rng.digits32(n, true), neg)
        }
        _ => {
            let n = rng.range(0, 30) as usize;
            (rng.digits32(n, true), neg)
        }
    }
}

pub fn gen(rng: &mut Prng, plan: &mut Plan) {
    plan.cfg = Step::new("cfg");
    if rng.chance(1, 40) {
        // padding sweep: one value, one import form, every padding length up to beyond two cache lines (a transport
        // that delivers a value in a fixed-width field); values -256^j and +-2^(8k-1) are where sign extension matters
        let (v, neg) = match rng.below(3) {
            0 => (RefNat::one().shl(8 * rng.range(1, 40)).0, true),
            1 => (RefNat::one().shl(8 * rng.range(1, 40)).sub(&RefNat::one()).unwrap().0, rng.chance(1, 2)),
            _ => special_value(rng),
        };
        let route = rng.below(8) as i128;
        let kind = rng.below(10) as i128;
        for pad in 0..=136 {
            plan.steps.push(Step::new("rt").l32("v", &v).i("neg", neg as i128).i("route", route).i("kind", kind).i("pad", pad));
        }
        return;
    }
    let n = rng.range(1, 6);
    for _ in 0..n {
        let (v, neg) = special_value(rng);
        let route = rng.below(8) as i128;
        if rng.chance(1, 30) {
            // medium byte strings (one to a few cache lines / vector blocks) as a window at every address residue
            let len = rng.range(41, 300);
            plan.steps.push(Step::new("big_bytes").i("len", len as i128).i("seed", rng.next_u32() as i128).i("kind", rng.below(8) as i128).i("neg", neg as i128).i("off", rng.below(16) as i128));
            continue;
        }
        if rng.chance(1, 60) {
            // long byte strings (beyond any internal block size) of every residue mod 8
            let len = *rng.pick(&[1025u64, 4097, 8190, 16_383, 16_385, 16_391, 20_003, 32_769, 40_005, 65_537]) + rng.below(9);
            plan.steps.push(Step::new("big_bytes").i("len", len as i128).i("seed", rng.next_u32() as i128).i("kind", rng.below(8) as i128).i("neg", neg as i128).i("off", rng.below(16) as i128));
            continue;
        }
        let s = match rng.below(10) {
            0..=2 => Step::new("export").l32("v", &v).i("neg", neg as i128).i("route", route),
            3..=5 => {
                // library export, transport padding, library import
                Step::new("rt")
                    .l32("v", &v)
                    .i("neg", neg as i128)
                    .i("route", route)
                    .i("kind", rng.below(10) as i128)
                    .i("pad", rng.below(9) as i128)
            }
            6 | 7 => {
                // arbitrary delivered bytes
                let len = rng.below(40) as usize;
                let mut b: Vec<u64> = (0..len).map(|_| (rng.word32() & 0xff) as u64).collect();
                match rng.below(5) {
                    0 => b.extend(std::iter::repeat(0).take(rng.range(1, 9) as usize)),
                    1 => b.extend(std::iter::repeat(0xff).take(rng.range(1, 9) as usize)),
                    2 => {
                        for x in b.iter_mut() {
                            *x = 0;
                        }
                    }
                    3 => {
                        if let Some(l) = b.last_mut() {
                            *l = 0x80;
                        }
                    }
                    _ => {}
                }
                Step::new("import_bytes").l("b", b).i("kind", rng.below(10) as i128).i("neg", neg as i128).i("off", rng.below(16) as i128)
            }
            _ => {
                // arbitrary delivered u32 words into a live register
                let len = rng.below(24) as usize;
                let mut w: Vec<u32> = (0..len).map(|_| rng.word32()).collect();
                match rng.below(4) {
                    0 => w.extend(std::iter::repeat(0).take(rng.range(1, 6) as usize)),
                    1 => {
                        for x in w.iter_mut() {
                            *x = 0;
                        }
                    }
                    _ => {}
                }
                Step::new("import_words")
                    .l32("w", &w)
                    .i("kind", rng.below(7) as i128)
                    .i("sg", *rng.pick(&[-1i128, 0, 1]))
                    .i("stale", if rng.chance(1, 40) { *rng.pick(&[70_000i128, 131_080, 140_001, 300_000]) } else { rng.below(60) as i128 })
                    .i("off", rng.below(4) as i128)
            }
        };
        plan.steps.push(s);
    }
}

/// The caller's memory layout is part of the environment: a copy of `bytes` inside a larger buffer whose first byte
/// sits at address = `off` (mod 16), with non-zero bytes on both sides (a window into a receive buffer).
struct Placed {
    buf: Vec<u8>,
    at: usize,
    len: usize,
}

impl Placed {
    fn new(bytes: &[u8], off: usize) -> Placed {
        let mut buf = vec![0xa5u8; bytes.len() + 48];
        let base = buf.as_ptr() as usize;
        let at = 16 + ((off % 16) + 16 - (base + 16) % 16) % 16;
        buf[at..at + bytes.len()].copy_from_slice(bytes);
        Placed { buf, at, len: bytes.len() }
    }
    fn get(&self) -> &[u8] {
        &self.buf[self.at..self.at + self.len]
    }
}

fn sign_of(x: i128) -> Sign {
    match x {
        0 => Sign::NoSign,
        x if x < 0 => Sign::Minus,
        _ => Sign::Plus,
    }
}

pub fn exec(plan: &Plan) -> RunResult {
    let mut res = RunResult::default();
    let mut dg = Digest::new();
    for (si, s) in plan.steps.iter().enumerate() {
        at_step(si);
        res.steps += 1;
        let op = s.op.as_str();
        macro_rules! bad {
            ($oracle:expr, $api:expr, $($arg:tt)*) => {{
                res.violate(P, $oracle, $api, si, format!($($arg)*));
                res.digest = dg.0;
                return res;
            }};
        }
        match op {
            "export" | "rt" => {
                let v = s.list32("v");
                let m = RefNat::from_u32s(&v);
                let neg = s.int("neg") != 0 && !m.is_zero();
                let mi = RefInt::new(neg, m.clone());
                let route = s.int("route");
                let built = catch(|| {
                    let u = crate::obs::build_u(&v, route);
                    let i = BigInt::from_biguint(if neg { Sign::Minus } else { Sign::Plus }, u.clone());
                    (u, i)
                });
                let (u, i) = match built {
                    Ok(t) => t,
                    Err(e) => {
                        res.violate("C14", "unexpected-panic", "construct", si, e);
                        return res;
                    }
                };
                if op == "export" {
                    let r = catch(|| -> Option<(String, String)> {
                        let le = m.to_bytes_le();
                        let be: Vec<u8> = le.iter().rev().copied().collect();
                        if u.to_bytes_le() != le {
                            return Some(("BigUint::to_bytes_le".into(), format!("{:x?} want {:x?}", u.to_bytes_le(), le)));
                        }
                        if u.to_bytes_be() != be {
                            return Some(("BigUint::to_bytes_be".into(), format!("{:x?} want {:x?}", u.to_bytes_be(), be)));
                        }
                        if num_traits::ToBytes::to_le_bytes(&u) != le || num_traits::ToBytes::to_be_bytes(&u) != be {
                            return Some(("BigUint::ToBytes".into(), "trait export differs from the minimal base-256 digits".into()));
                        }
                        // native-endian trait methods (little-endian on the only installed target)
                        let ne = if cfg!(target_endian = "little") { &le } else { &be };
                        if &num_traits::ToBytes::to_ne_bytes(&u) != ne {
                            return Some(("BigUint::ToBytes::to_ne_bytes".into(), "native-endian export differs".into()));
                        }
                        if u.to_u32_digits() != m.0 || u.iter_u32_digits().collect::<Vec<_>>() != m.0 {
                            return Some(("BigUint::to_u32_digits".into(), format!("{:x?} want {:x?}", u.to_u32_digits(), m.0)));
                        }
                        if u.to_u64_digits() != m.to_u64s() || u.iter_u64_digits().collect::<Vec<_>>() != m.to_u64s() {
                            return Some(("BigUint::to_u64_digits".into(), format!("{:x?} want {:x?}", u.to_u64_digits(), m.to_u64s())));
                        }
                        let sg = if m.is_zero() { Sign::NoSign } else if neg { Sign::Minus } else { Sign::Plus };
                        if i.to_bytes_le() != (sg, le.clone()) || i.to_bytes_be() != (sg, be.clone()) {
                            return Some(("BigInt::to_bytes".into(), format!("{:?} want ({:?}, {:x?})", i.to_bytes_le(), sg, le)));
                        }
                        if i.to_u32_digits() != (sg, m.0.clone()) || i.to_u64_digits() != (sg, m.to_u64s()) {
                            return Some(("BigInt::to_u32_digits".into(), format!("{:?}", i.to_u32_digits())));
                        }
                        if i.iter_u32_digits().collect::<Vec<_>>() != m.0 || i.iter_u64_digits().collect::<Vec<_>>() != m.to_u64s() {
                            return Some(("BigInt::iter_digits".into(), "iterator export differs".into()));
                        }
                        let sle = mi.to_signed_bytes_le();
                        let sbe: Vec<u8> = sle.iter().rev().copied().collect();
                        if i.to_signed_bytes_le() != sle {
                            return Some(("BigInt::to_signed_bytes_le".into(), format!("{:x?} want {:x?} for {}", i.to_signed_bytes_le(), sle, mi.to_dec())));
                        }
                        if i.to_signed_bytes_be() != sbe {
                            return Some(("BigInt::to_signed_bytes_be".into(), format!("{:x?} want {:x?} for {}", i.to_signed_bytes_be(), sbe, mi.to_dec())));
                        }
                        if num_traits::ToBytes::to_le_bytes(&i) != sle || num_traits::ToBytes::to_be_bytes(&i) != sbe {
                            return Some(("BigInt::ToBytes".into(), "trait export differs from the shortest two's complement".into()));
                        }
                        let sne = if cfg!(target_endian = "little") { &sle } else { &sbe };
                        if &num_traits::ToBytes::to_ne_bytes(&i) != sne {
                            return Some(("BigInt::ToBytes::to_ne_bytes".into(), "native-endian export differs".into()));
                        }
                        let back_i = <BigInt as num_traits::FromBytes>::from_ne_bytes(sne);
                        let back_u = <BigUint as num_traits::FromBytes>::from_ne_bytes(ne);
                        if denote_i(&back_i) != mi || denote_u(&back_u) != m {
                            return Some(("FromBytes::from_ne_bytes".into(), format!("native-endian import of the native-endian export gives {} / {} for {}", denote_i(&back_i).to_dec(), denote_u(&back_u).to_hex(), mi.to_dec())));
                        }
                        None
                    });
                    match r {
                        Ok(None) => {}
                        Ok(Some((api, d))) => bad!("export-model", &api, "{d}"),
                        Err(e) => {
                            res.violate("C14", "unexpected-panic", "export", si, e);
                            return res;
                        }
                    }
                    dg.bytes(&m.to_bytes_le());
                    res.nontrivial = true;
                    let k = m.bits();
                    res.cover.insert(fnv(format!("export|{}|{}|{neg}|{route}", m.0.len().min(24), if k % 8 == 0 { 0 } else if k % 8 == 7 { 7 } else { 1 }).as_bytes()));
                } else {
                    let kind = s.int("kind");
                    let pad = s.us("pad");
                    let names = [
                        "bytes_le", "bytes_be", "signed_le", "signed_be", "u32_new", "u32_from_slice", "u32_assign", "frombytes_le", "i_u32_new", "i_u32_assign",
                    ];
                    let api = names[(kind as usize).min(9)];
                    let r = catch(|| -> Result<(), String> {
                        match kind {
                            0 => {
                                let mut b = u.to_bytes_le();
                                b.extend(std::iter::repeat(0).take(pad));
                                let back = BigUint::from_bytes_le(&b);
                                if denote_u(&back) != m || noncanonical_u(&back).is_some() {
                                    return Err(format!("from_bytes_le(to_bytes_le(x) + {pad} zero bytes) = {} for x = {}", denote_u(&back).to_hex(), m.to_hex()));
                                }
                            }
                            1 => {
                                let mut b = vec![0u8; pad];
                                b.extend(u.to_bytes_be());
                                let back = BigUint::from_bytes_be(&b);
                                if denote_u(&back) != m || noncanonical_u(&back).is_some() {
                                    return Err(format!("from_bytes_be({pad} zero bytes + to_bytes_be(x)) = {} for x = {}", denote_u(&back).to_hex(), m.to_hex()));
                                }
                            }
                            2 | 3 => {
                                let mut b = i.to_signed_bytes_le();
                                let ext = if neg { 0xff } else { 0 };
                                b.extend(std::iter::repeat(ext).take(pad));
                                let back = if kind == 2 {
                                    BigInt::from_signed_bytes_le(&b)
                                } else {
                                    b.reverse();
                                    BigInt::from_signed_bytes_be(&b)
                                };
                                if denote_i(&back) != mi || noncanonical_i(&back).is_some() {
                                    return Err(format!("from_signed_bytes(to_signed_bytes(x) + {pad} sign bytes) = {} for x = {}", denote_i(&back).to_dec(), mi.to_dec()));
                                }
                            }
                            4..=6 => {
                                let mut w = u.to_u32_digits();
                                w.extend(std::iter::repeat(0).take(pad));
                                let back = match kind {
                                    4 => BigUint::new(w),
                                    5 => BigUint::from_slice(&w),
                                    _ => {
                                        let mut t = BigUint::new(vec![0xdead_beef; 50]);
                                        t.assign_from_slice(&w);
                                        t
                                    }
                                };
                                if denote_u(&back) != m || noncanonical_u(&back).is_some() {
                                    return Err(format!("words + {pad} zero words gave {} for x = {}", denote_u(&back).to_hex(), m.to_hex()));
                                }
                            }
                            7 => {
                                let mut b = num_traits::ToBytes::to_le_bytes(&i);
                                let ext = if neg { 0xff } else { 0 };
                                b.extend(std::iter::repeat(ext).take(pad));
                                let back = <BigInt as num_traits::FromBytes>::from_le_bytes(&b);
                                if denote_i(&back) != mi || noncanonical_i(&back).is_some() {
                                    return Err(format!("FromBytes(ToBytes(x) + padding) = {} for x = {}", denote_i(&back).to_dec(), mi.to_dec()));
                                }
                                b.reverse();
                                let back = <BigInt as num_traits::FromBytes>::from_be_bytes(&b);
                                if denote_i(&back) != mi || noncanonical_i(&back).is_some() {
                                    return Err(format!("FromBytes::from_be_bytes(padding + ToBytes(x)) = {} for x = {}", denote_i(&back).to_dec(), mi.to_dec()));
                                }
                            }
                            _ => {
                                let (sg, mut w) = i.to_u32_digits();
                                w.extend(std::iter::repeat(0).take(pad));
                                let back = if kind == 8 {
                                    BigInt::new(sg, w)
                                } else {
                                    let mut t = BigInt::new(Sign::Minus, vec![7; 40]);
                                    t.assign_from_slice(sg, &w);
                                    t
                                };
                                if denote_i(&back) != mi || noncanonical_i(&back).is_some() {
                                    return Err(format!("(sign, words + {pad} zero words) gave {} for x = {}", denote_i(&back).to_dec(), mi.to_dec()));
                                }
                            }
                        }
                        Ok(())
                    });
                    match r {
                        Ok(Ok(())) => {}
                        Ok(Err(d)) => bad!("roundtrip", api, "{d}"),
                        Err(e) => {
                            res.violate("C14", "unexpected-panic", api, si, e);
                            return res;
                        }
                    }
                    if pad > 0 {
                        res.fault("transport.pad");
                    }
                    dg.u64(kind as u64);
                    res.nontrivial = true;
                    res.cover.insert(fnv(format!("rt|{kind}|{}|{}|{neg}|{route}", pad.min(3), m.0.len().min(16)).as_bytes()));
                }
            }
            "big_bytes" => {
                let len = s.us("len");
                let mut st = s.u64("seed") | 1;
                let mut b: Vec<u8> = (0..len).map(|_| (crate::prng::splitmix(&mut st) >> 24) as u8).collect();
                if let Some(l) = b.last_mut() {
                    *l = (*l & 0x7f) | 1; // non-negative in two's complement, top byte non-zero
                }
                let kind = s.int("kind");
                let sg = s.int("neg") != 0;
                let rev: Vec<u8> = b.iter().rev().copied().collect();
                let model = RefNat::from_bytes_le(&b);
                let off = s.us("off");
                let (pb, prev) = (Placed::new(&b, off), Placed::new(&rev, off));
                let (b, rev) = (pb.get(), prev.get());
                if off % 8 != 0 {
                    res.fault("layout.unaligned_slice");
                }
                let names = ["BigUint::from_bytes_le", "BigUint::from_bytes_be", "BigInt::from_signed_bytes_le", "BigInt::from_signed_bytes_be", "BigInt::from_bytes_le", "BigInt::from_bytes_be", "BigUint::FromBytes", "BigInt::FromBytes"];
                let api = names[(kind as usize).min(7)];
                let r = catch(|| -> (RefInt, Option<String>, bool) {
                    match kind {
                        0 => { let x = BigUint::from_bytes_le(&b); (RefInt::new(false, denote_u(&x)), noncanonical_u(&x), x.to_bytes_le() == b && x.to_bytes_be() == rev) }
                        1 => { let x = BigUint::from_bytes_be(&rev); (RefInt::new(false, denote_u(&x)), noncanonical_u(&x), x.to_bytes_be() == rev) }
                        2 => { let x = BigInt::from_signed_bytes_le(&b); (denote_i(&x), noncanonical_i(&x), x.to_signed_bytes_le() == b) }
                        3 => { let x = BigInt::from_signed_bytes_be(&rev); (denote_i(&x), noncanonical_i(&x), x.to_signed_bytes_be() == rev) }
                        4 => { let x = BigInt::from_bytes_le(if sg { Sign::Minus } else { Sign::Plus }, &b); (denote_i(&x), noncanonical_i(&x), x.to_bytes_le().1 == b) }
                        5 => { let x = BigInt::from_bytes_be(if sg { Sign::Minus } else { Sign::Plus }, &rev); (denote_i(&x), noncanonical_i(&x), x.to_bytes_be().1 == rev) }
                        6 => { let x = <BigUint as num_traits::FromBytes>::from_be_bytes(&rev); (RefInt::new(false, denote_u(&x)), noncanonical_u(&x), num_traits::ToBytes::to_be_bytes(&x) == rev) }
                        _ => { let x = <BigInt as num_traits::FromBytes>::from_le_bytes(&b); (denote_i(&x), noncanonical_i(&x), num_traits::ToBytes::to_le_bytes(&x) == b) }
                    }
                });
                let (got, nc, back) = match r {
                    Ok(t) => t,
                    Err(e) => {
                        res.violate("C14", "unexpected-panic", api, si, format!("{e}: {len} bytes"));
                        return res;
                    }
                };
                let want = RefInt::new(sg && (kind == 4 || kind == 5), model);
                if let Some(nc) = nc {
                    bad!("canonical", api, "{len} bytes: {nc}");
                }
                if got != want {
                    bad!("import-model", api, "a {len}-byte string (seed {}) imports as a {}-bit value, the bytes denote a {}-bit value (values differ)", s.u64("seed"), got.mag.bits(), want.mag.bits());
                }
                if !back {
                    bad!("export-model", api, "a {len}-byte string does not export back to the same bytes");
                }
                dg.u64(got.mag.bits());
                res.nontrivial = true;
                res.reach("long_byte_strings");
                res.cover.insert(fnv(format!("big|{kind}|{}|{}", len % 8, len > 16384).as_bytes()));
            }
            "import_bytes" => {
                let b = s.list8("b");
                let kind = s.int("kind");
                let sg = s.int("neg") != 0;
                let names = ["BigUint::from_bytes_le", "BigUint::from_bytes_be", "BigInt::from_signed_bytes_le", "BigInt::from_signed_bytes_be", "BigInt::from_bytes_le", "BigInt::from_bytes_be", "BigUint::FromBytes", "BigInt::FromBytes", "BigUint::FromBytes::from_ne_bytes", "BigInt::FromBytes::from_ne_bytes"];
                let api = names[(kind as usize).min(9)];
                let rev: Vec<u8> = b.iter().rev().copied().collect();
                let off = s.us("off");
                let (pb, prev) = (Placed::new(&b, off), Placed::new(&rev, off));
                let (b, rev) = (pb.get(), prev.get());
                if off % 8 != 0 {
                    res.fault("layout.unaligned_slice");
                }
                let ne: &[u8] = if cfg!(target_endian = "little") { b } else { rev };
                let r = catch(|| -> (RefInt, Option<String>) {
                    match kind {
                        8 => { let x = <BigUint as num_traits::FromBytes>::from_ne_bytes(ne); (RefInt::new(false, denote_u(&x)), noncanonical_u(&x)) }
                        9 => { let x = <BigInt as num_traits::FromBytes>::from_ne_bytes(ne); (denote_i(&x), noncanonical_i(&x)) }
                        0 => { let x = BigUint::from_bytes_le(&b); (RefInt::new(false, denote_u(&x)), noncanonical_u(&x)) }
                        1 => { let x = BigUint::from_bytes_be(&rev); (RefInt::new(false, denote_u(&x)), noncanonical_u(&x)) }
                        2 => { let x = BigInt::from_signed_bytes_le(&b); (denote_i(&x), noncanonical_i(&x)) }
                        3 => { let x = BigInt::from_signed_bytes_be(&rev); (denote_i(&x), noncanonical_i(&x)) }
                        4 => { let x = BigInt::from_bytes_le(if sg { Sign::Minus } else { Sign::Plus }, &b); (denote_i(&x), noncanonical_i(&x)) }
                        5 => { let x = BigInt::from_bytes_be(if sg { Sign::Minus } else { Sign::Plus }, &rev); (denote_i(&x), noncanonical_i(&x)) }
                        6 => { let x = <BigUint as num_traits::FromBytes>::from_le_bytes(&b); (RefInt::new(false, denote_u(&x)), noncanonical_u(&x)) }
                        _ => { let x = <BigInt as num_traits::FromBytes>::from_be_bytes(&rev); (denote_i(&x), noncanonical_i(&x)) }
                    }
                });
                let (got, nc) = match r {
                    Ok(t) => t,
                    Err(e) => {
                        res.violate("C14", "unexpected-panic", api, si, format!("{e}: bytes {b:x?}"));
                        return res;
                    }
                };
                let want = match kind {
                    0 | 1 | 6 | 8 => RefInt::new(false, RefNat::from_bytes_le(&b)),
                    2 | 3 | 7 | 9 => RefInt::from_signed_bytes_le(&b),
                    _ => RefInt::new(sg, RefNat::from_bytes_le(&b)),
                };
                if let Some(nc) = nc {
                    bad!("canonical", api, "bytes {b:x?}: {nc}");
                }
                if got != want {
                    bad!("import-model", api, "bytes (LE order) {b:x?} denote {} but the import returned {}", want.to_dec(), got.to_dec());
                }
                dg.u32s(&got.mag.0);
                res.nontrivial = true;
                let top = b.last().copied().unwrap_or(0);
                res.cover.insert(fnv(format!("ib|{kind}|{}|{}|{}", b.len().min(20), top == 0, top == 0xff).as_bytes()));
            }
            "import_words" => {
                let w = s.list32("w");
                let kind = s.int("kind");
                let sgn = sign_of(s.int("sg"));
                let stale = s.us("stale");
                // the words as a window at a chosen u32 offset inside a larger buffer (8-byte aligned or not)
                let woff = s.us("off") % 4;
                let mut wbuf = vec![0x5a5a_5a5au32; w.len() + 12];
                let wat = 4 + (woff + 4 - ((wbuf.as_ptr() as usize / 4) + 4) % 4) % 4;
                wbuf[wat..wat + w.len()].copy_from_slice(&w);
                let win: &[u32] = &wbuf[wat..wat + w.len()];
                if woff % 2 != 0 {
                    res.fault("layout.unaligned_slice");
                }
                if stale > 65_536 {
                    res.fault("history.huge_stale_capacity");
                }
                let names = ["BigUint::new", "BigUint::from_slice", "BigUint::assign_from_slice", "BigInt::new", "BigInt::from_slice", "BigInt::assign_from_slice", "BigUint::assign_from_slice"];
                let api = names[(kind as usize).min(6)];
                let r = catch(|| -> (RefInt, Option<String>) {
                    match kind {
                        0 => { let x = BigUint::new(w.clone()); (RefInt::new(false, denote_u(&x)), noncanonical_u(&x)) }
                        1 => { let x = BigUint::from_slice(win); (RefInt::new(false, denote_u(&x)), noncanonical_u(&x)) }
                        2 | 6 => {
                            let mut x = BigUint::new(vec![0xffff_ffff; stale]);
                            if kind == 6 {
                                x <<= 64u32;
                                x >>= 70u32;
                            }
                            x.assign_from_slice(win);
                            (RefInt::new(false, denote_u(&x)), noncanonical_u(&x))
                        }
                        3 => { let x = BigInt::new(sgn, w.clone()); (denote_i(&x), noncanonical_i(&x)) }
                        4 => { let x = BigInt::from_slice(sgn, win); (denote_i(&x), noncanonical_i(&x)) }
                        _ => {
                            let mut x = BigInt::new(Sign::Minus, vec![0xffff_ffff; stale]);
                            x.assign_from_slice(sgn, win);
                            (denote_i(&x), noncanonical_i(&x))
                        }
                    }
                });
                let (got, nc) = match r {
                    Ok(t) => t,
                    Err(e) => {
                        res.violate("C14", "unexpected-panic", api, si, format!("{e}: words {w:x?}"));
                        return res;
                    }
                };
                let mag = RefNat::from_u32s(&w);
                let want = match kind {
                    0 | 1 | 2 | 6 => RefInt::new(false, mag),
                    _ => match sgn {
                        Sign::NoSign => RefInt::new(false, RefNat::zero()),
                        Sign::Minus => RefInt::new(true, mag),
                        Sign::Plus => RefInt::new(false, mag),
                    },
                };
                if let Some(nc) = nc {
                    bad!("canonical", api, "words {w:x?} sign {sgn:?}: {nc}");
                }
                if got != want {
                    bad!("import-model", api, "words {w:x?} with sign {sgn:?} denote {} but the import returned {}", want.to_dec(), got.to_dec());
                }
                dg.u32s(&got.mag.0);
                res.nontrivial = true;
                res.cover.insert(fnv(format!("iw|{kind}|{}|{}|{:?}|{}", w.len().min(12), w.last() == Some(&0), sgn, if stale > 65_536 { 2 } else { (stale > w.len() * 4) as u8 }).as_bytes()));
            }
            other => {
                res.violate(P, "harness", other, si, "unknown op".into());
                return res;
            }
        }
    }
    res.digest = dg.0;
    res
}
