//! The only source of choices in the simulator: SplitMix64 seeding xoshiro256**.

#[inline]
pub fn splitmix(state: &mut u64) -> u64 {
    *state = state.wrapping_add(0x9E37_79B9_7F4A_7C15);
    let mut z = *state;
    z = (z ^ (z >> 30)).wrapping_mul(0xBF58_476D_1CE4_E5B9);
    z = (z ^ (z >> 27)).wrapping_mul(0x94D0_49BB_1331_11EB);
    z ^ (z >> 31)
}

/// Stateless mixing of several words into one (used for per-run seeds and allocator choices).
pub fn mix(words: &[u64]) -> u64 {
    let mut s = 0x243F_6A88_85A3_08D3u64;
    for &w in words {
        s ^= w;
        splitmix(&mut s);
        s = s.rotate_left(23) ^ w.wrapping_mul(0x9E37_79B9_7F4A_7C15);
    }
    let mut t = s;
    splitmix(&mut t)
}

#[derive(Clone, Debug)]
pub struct Prng {
    s: [u64; 4],
}

impl Prng {
    pub fn new(seed: u64) -> Prng {
        let mut sm = seed;
        let s = [
            splitmix(&mut sm),
            splitmix(&mut sm),
            splitmix(&mut sm),
            splitmix(&mut sm),
        ];
        Prng { s }
    }

    /// PRNG of run `index` of scenario `scenario` under global seed `seed`.
    pub fn for_run(seed: u64, scenario: &str, index: u64) -> Prng {
        let mut h = 0xcbf2_9ce4_8422_2325u64;
        for b in scenario.bytes() {
            h = (h ^ b as u64).wrapping_mul(0x100_0000_01b3);
        }
        Prng::new(mix(&[seed, h, index]))
    }

    #[inline]
    pub fn next_u64(&mut self) -> u64 {
        let s = &mut self.s;
        let result = s[1].wrapping_mul(5).rotate_left(7).wrapping_mul(9);
        let t = s[1] << 17;
        s[2] ^= s[0];
        s[3] ^= s[1];
        s[1] ^= s[2];
        s[0] ^= s[3];
        s[2] ^= t;
        s[3] = s[3].rotate_left(45);
        result
    }

    #[inline]
    pub fn next_u32(&mut self) -> u32 {
        (self.next_u64() >> 32) as u32
    }

    /// Uniform in `0..n` (n > 0). Slight modulo bias is irrelevant here.
    #[inline]
    pub fn below(&mut self, n: u64) -> u64 {
        debug_assert!(n > 0);
        ((self.next_u64() as u128 * n as u128) >> 64) as u64
    }

    /// Uniform in `lo..=hi`.
    #[inline]
    pub fn range(&mut self, lo: u64, hi: u64) -> u64 {
        lo + self.below(hi - lo + 1)
    }

    #[inline]
    pub fn chance(&mut self, num: u64, den: u64) -> bool {
        self.below(den) < num
    }

    #[inline]
    pub fn pick<'a, T>(&mut self, xs: &'a [T]) -> &'a T {
        &xs[self.below(xs.len() as u64) as usize]
    }

    /// Index chosen with the given weights.
    pub fn weighted(&mut self, weights: &[u32]) -> usize {
        let total: u64 = weights.iter().map(|&w| w as u64).sum();
        let mut r = self.below(total.max(1));
        for (i, &w) in weights.iter().enumerate() {
            if r < w as u64 {
                return i;
            }
            r -= w as u64;
        }
        weights.len() - 1
    }

    /// A 32-bit word with an "interesting" bias: zeros, ones, single bits, small, random.
    pub fn word32(&mut self) -> u32 {
        match self.below(10) {
            0 => 0,
            1 => u32::MAX,
            2 => 1 << self.below(32),
            3 => self.below(4) as u32,
            4 => u32::MAX - self.below(3) as u32,
            5 => 0x8000_0000,
            _ => self.next_u32(),
        }
    }

    /// Little-endian u32 digit vector of exactly `len` words following a pattern.
    /// The top word is NOT forced to be non-zero unless `canonical`.
    pub fn digits32(&mut self, len: usize, canonical: bool) -> Vec<u32> {
        let pat = self.below(8);
        let mut v: Vec<u32> = (0..len)
            .map(|i| match pat {
                0 => u32::MAX,
                1 => 0,
                2 => {
                    if self.chance(1, 6) {
                        self.next_u32()
                    } else {
                        0
                    }
                }
                3 => {
                    if i % 2 == 0 {
                        u32::MAX
                    } else {
                        0
                    }
                }
                4 => self.word32(),
                _ => self.next_u32(),
            })
            .collect();
        if canonical {
            if let Some(t) = v.last_mut() {
                if *t == 0 {
                    *t = match self.below(3) {
                        0 => 1,
                        1 => u32::MAX,
                        _ => self.next_u32() | 1,
                    };
                }
            }
        }
        v
    }
}
