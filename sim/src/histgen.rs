//! Plan generation for the register-machine scenarios: swarm configuration + step list, all drawn
//! from the run PRNG before anything executes.

use crate::plan::Step;
use crate::prng::Prng;
use crate::regs::{NI, NU};

#[derive(Clone, Debug)]
pub struct Profile {
    /// weights of the op families, see FAMILIES
    pub weights: [u32; 12],
    /// operand length classes (in 32-bit words): (lo, hi, weight)
    pub lens: Vec<(usize, usize, u32)>,
    pub steps: (u64, u64),
    /// per-mille of steps that may run into a documented failure (otherwise `safe=1`)
    pub unsafe_permille: u64,
    /// allow ops that exist only with the std feature (quickcheck / arbitrary arrivals)
    pub std_only: bool,
    /// restrict radices / keep text ops frequent etc.
    pub text_heavy: bool,
    /// generator / deserialiser arrivals (need the optional features of the library)
    pub arrivals: bool,
}

pub const FAMILIES: [&str; 12] = [
    "construct", "binop", "assign", "scalar", "shift", "mutate", "power", "integer", "checked", "export", "detour", "convert",
];

/// Words of one operand following a structured pattern (chosen to hit carry chains, sparse limbs,
/// powers of two of whole native digits, equal top digits in division, ...).
pub fn value_words(rng: &mut Prng, len: usize) -> Vec<u32> {
    if len == 0 {
        return vec![];
    }
    let pat = rng.below(15);
    let mut v: Vec<u32> = match pat {
        13 if len >= 3 => {
            // exactly-half / just-above-half patterns for the f64 rounding (53 bits, then 1, then zeros [+1])
            let mut v = vec![0; len];
            v[len - 1] = rng.next_u32() | 0x8000_0000;
            v[len - 2] = (rng.next_u32() & 0xffff_f800) | 0x400;
            if rng.chance(1, 2) {
                v[len - 2] |= 0x800; // odd mantissa: ties-to-even rounds up
            }
            v[0] |= rng.below(2) as u32;
            v
        }
        14 if len >= 2 => {
            // the same for f32 (24 bits, then 1, then zeros [+1])
            let mut v = vec![0; len];
            v[len - 1] = (rng.next_u32() & 0xffff_ff00) | 0x8000_0080;
            if rng.chance(1, 2) {
                v[len - 1] |= 0x100;
            }
            v[0] |= rng.below(2) as u32;
            v
        }
        12 => {
            // 2^(32*len - 1): lowest set bit at position 31 or 63 of its native digit
            let mut v = vec![0; len];
            v[len - 1] = 0x8000_0000;
            v
        }
        0 => vec![u32::MAX; len],
        1 => {
            // power of two: single top bit
            let mut v = vec![0; len];
            v[len - 1] = 1 << rng.below(32);
            v
        }
        2 => {
            // 2^(32*(len-1)): top word exactly 1 (a power of two of whole digits when len is odd)
            let mut v = vec![0; len];
            v[len - 1] = 1;
            v
        }
        3 => {
            // sparse limbs from {0, 1, 2^31, MAX}
            (0..len).map(|_| *rng.pick(&[0u32, 0, 1, 0x8000_0000, u32::MAX])).collect()
        }
        4 => {
            // 2^k - 1 pattern then one word short
            let mut v = vec![u32::MAX; len];
            v[len - 1] = (1u32 << rng.range(1, 31)) - 1;
            v
        }
        5 => {
            // low zeros, random top
            let z = rng.below(len as u64) as usize;
            (0..len).map(|i| if i < z { 0 } else { rng.next_u32() }).collect()
        }
        6 => {
            // top native digit 2^63 (normalised divisor shape), rest sparse
            let mut v: Vec<u32> = (0..len).map(|_| *rng.pick(&[0u32, 1, u32::MAX])).collect();
            v[len - 1] = 0x8000_0000;
            v
        }
        _ => (0..len).map(|_| rng.word32()).collect(),
    };
    if let Some(t) = v.last_mut() {
        if *t == 0 {
            *t = 1 + rng.below(3) as u32;
        }
    }
    v
}

fn pick_len(rng: &mut Prng, p: &Profile) -> usize {
    let w: Vec<u32> = p.lens.iter().map(|l| l.2).collect();
    let (lo, hi, _) = p.lens[rng.weighted(&w)];
    rng.range(lo as u64, hi as u64) as usize
}

fn scalar(rng: &mut Prng, signed_ok: bool) -> (i128, i128) {
    let t = if signed_ok { rng.below(12) } else { rng.below(6) } as i128;
    let bits = [8, 16, 32, 64, 128, 64, 8, 16, 32, 64, 128, 64][t as usize];
    let signed = t >= 6;
    let max: i128 = if bits == 128 {
        i128::MAX
    } else if signed {
        (1i128 << (bits - 1)) - 1
    } else {
        (1i128 << bits) - 1
    };
    let k = match rng.below(10) {
        0 => 0,
        1 => 1,
        2 => max,
        3 if signed => -max - 1,
        4 if signed => -1,
        5 => rng.below(300) as i128,
        6 if bits == 128 && !signed => -1, // u128::MAX after the cast
        7 => (rng.next_u64() as i128) << (rng.below(3) * 32),
        _ => {
            let raw = ((rng.next_u64() as u128) << 64 | rng.next_u64() as u128) as i128;
            if bits == 128 {
                raw
            } else {
                let m = raw & ((1i128 << bits) - 1);
                if signed && m > max {
                    m - (1i128 << bits)
                } else {
                    m
                }
            }
        }
    };
    (t, k)
}

fn radix_text(rng: &mut Prng) -> i128 {
    match rng.below(8) {
        0 => 2,
        1 => 10,
        2 => 16,
        3 => 36,
        4 => *rng.pick(&[8i128, 32, 4, 3, 7, 35]),
        _ => rng.range(2, 36) as i128,
    }
}
fn radix_digits(rng: &mut Prng) -> i128 {
    match rng.below(8) {
        0 => 256,
        1 => 2,
        2 => 255,
        3 => *rng.pick(&[8i128, 32, 64, 128, 16, 4]),
        _ => rng.range(2, 256) as i128,
    }
}
fn bad_radix(rng: &mut Prng, text: bool) -> i128 {
    if text {
        *rng.pick(&[0i128, 1, 37, 64, 256, 1 << 31, u32::MAX as i128])
    } else {
        *rng.pick(&[0i128, 1, 257, 512, 65536, 1 << 31, u32::MAX as i128])
    }
}

const BIN_OPS: [&str; 8] = ["add", "sub", "mul", "div", "rem", "and", "or", "xor"];
const SC_OPS: [&str; 5] = ["add", "sub", "mul", "div", "rem"];
const U_INT_OPS: [&str; 16] = [
    "divides", "div_rem", "div_floor", "mod_floor", "div_mod_floor", "div_ceil", "div_euclid", "rem_euclid", "div_rem_euclid",
    "next_multiple_of", "prev_multiple_of", "gcd", "lcm", "gcd_lcm", "is_multiple_of", "parity",
];
const I_INT_OPS: [&str; 19] = [
    "divides", "div_rem", "div_floor", "mod_floor", "div_mod_floor", "div_ceil", "div_euclid", "rem_euclid", "div_rem_euclid",
    "next_multiple_of", "prev_multiple_of", "gcd", "lcm", "gcd_lcm", "extended_gcd", "extended_gcd_lcm", "abs_sub",
    "is_multiple_of", "parity",
];
const CHECKED_OPS: [&str; 7] = ["add", "sub", "mul", "div", "div_euclid", "rem_euclid", "div_rem_euclid"];

fn text_of(rng: &mut Prng, words: &[u32], radix: u32, neg: bool, plus_ok: bool) -> String {
    // render little-endian words in the radix by schoolbook division (generator side, not the library)
    let mut cur = crate::refnat::RefNat::from_u32s(words);
    let mut digits = Vec::new();
    if cur.is_zero() {
        digits.push(0u32);
    }
    while !cur.is_zero() {
        let (q, r) = cur.divrem_small(radix);
        digits.push(r);
        cur = q;
    }
    let mut s = String::new();
    if neg {
        s.push('-');
    } else if plus_ok && rng.chance(1, 5) {
        s.push('+');
    }
    let zeros = if rng.chance(1, 6) { rng.range(20, 90) } else { rng.below(3) };
    for _ in 0..zeros {
        s.push('0');
    }
    let upper = rng.chance(1, 3);
    for (n, d) in digits.iter().rev().enumerate() {
        let c = std::char::from_digit(*d, radix).unwrap();
        s.push(if upper { c.to_ascii_uppercase() } else { c });
        if n + 1 < digits.len() && rng.chance(1, 12) {
            s.push('_');
        }
    }
    s
}

pub struct Gen<'a> {
    pub rng: &'a mut Prng,
    pub p: &'a Profile,
    /// a small pool of base values reused by constructors so that equal integers arise by different routes
    pub pool: Vec<Vec<u32>>,
}

impl<'a> Gen<'a> {
    pub fn new(rng: &'a mut Prng, p: &'a Profile) -> Gen<'a> {
        let n = rng.range(2, 5);
        let mut pool = Vec::new();
        for _ in 0..n {
            let len = pick_len(rng, p);
            pool.push(value_words(rng, len));
        }
        pool.push(vec![]);
        Gen { rng, p, pool }
    }
    fn ru(&mut self) -> i128 {
        self.rng.below(NU as u64) as i128
    }
    fn ri(&mut self) -> i128 {
        self.rng.below(NI as u64) as i128
    }
    fn val(&mut self) -> Vec<u32> {
        if self.rng.chance(2, 3) {
            let i = self.rng.below(self.pool.len() as u64) as usize;
            self.pool[i].clone()
        } else {
            let len = pick_len(self.rng, self.p);
            value_words(self.rng, len)
        }
    }
    fn padded(&mut self, mut v: Vec<u32>) -> Vec<u32> {
        if self.rng.chance(1, 3) {
            for _ in 0..self.rng.range(1, 5) {
                v.push(0);
            }
        }
        v
    }
    fn safe(&mut self, s: Step) -> Step {
        if self.rng.below(1000) < self.p.unsafe_permille {
            s
        } else {
            s.i("safe", 1)
        }
    }
    fn is_unsafe(&mut self) -> bool {
        self.rng.below(1000) < self.p.unsafe_permille
    }

    fn arrival(&mut self, pre: &str, d: i128) -> Step {
        let nkinds = if self.p.std_only { 6 } else { 2 };
        let f = self.rng.below(nkinds) as i128;
        let st = Step::new(&format!("{pre}.arrive")).i("d", d).i("f", f);
        match f {
            0 => {
                // RNG stream with zero top words (high zero digits the generator must strip)
                let bits = *self.rng.pick(&[0u64, 1, 31, 32, 33, 63, 64, 65, 127, 128, 200]);
                let len = ((bits + 31) / 32) as usize + 1;
                let mut w: Vec<u32> = (0..len).map(|_| self.rng.word32()).collect();
                if self.rng.chance(1, 2) {
                    let n = w.len();
                    for x in w.iter_mut().skip(n.saturating_sub(3)) {
                        *x = 0;
                    }
                }
                w.push(*self.rng.pick(&[0u32, 0x8000_0000]));
                st.i("k", bits as i128).l32("v", &w)
            }
            1 => {
                // serde tokens with trailing zeros and (BigInt) sign/magnitude mismatch
                let v = self.val();
                let v = self.padded(v);
                let v = if self.rng.chance(1, 6) { vec![0; v.len()] } else { v };
                st.i("sg", *self.rng.pick(&[-1i128, 0, 1])).l32("v", &v)
            }
            _ => {
                // Unstructured bytes that may run dry / be all zero; quickcheck seed and size
                let n = self.rng.below(70) as usize;
                let bytes: Vec<u64> = if self.rng.chance(1, 3) { vec![0; n] } else { (0..n).map(|_| (self.rng.word32() & 0xff) as u64).collect() };
                st.i("k", self.rng.below(1000) as i128).l("v", bytes)
            }
        }
    }

    /// A string of 0..=4 characters over an alphabet chosen to be malformed as often as well-formed:
    /// parsing must answer Ok or Err, never panic (the space of such strings is small enough to be saturated).
    fn tiny_text(&mut self) -> String {
        const ALPHA: [char; 8] = ['+', '-', '_', '0', '1', 'z', ' ', '9'];
        let n = self.rng.below(5);
        (0..n).map(|_| *self.rng.pick(&ALPHA)).collect()
    }

    pub fn construct_u(&mut self, d: i128) -> Step {
        if self.p.arrivals && self.rng.chance(1, 8) {
            return self.arrival("u", d);
        }
        let v = self.val();
        match self.rng.below(12) {
            0 => {
                let v = self.padded(v);
                let cap = if self.rng.chance(1, 3) { self.rng.range(1, 400) } else { 0 };
                Step::new("u.new").i("d", d).l32("v", &v).i("cap", cap as i128)
            }
            1 => {
                let v = self.padded(v);
                Step::new("u.from_slice").i("d", d).l32("v", &v)
            }
            2 => {
                let v = self.padded(v);
                Step::new("u.assign_slice").i("d", d).l32("v", &v)
            }
            3 | 4 => {
                let mut bytes = crate::refnat::RefNat::from_u32s(&v).to_bytes_le();
                if self.rng.chance(1, 3) {
                    for _ in 0..self.rng.range(1, 9) {
                        bytes.push(0);
                    }
                }
                if self.rng.chance(1, 10) {
                    bytes.clear();
                }
                let f = self.rng.below(4) as i128;
                if f % 2 == 1 {
                    bytes.reverse();
                }
                Step::new("u.from_bytes").i("d", d).i("f", f).l("v", bytes.iter().map(|&b| b as u64).collect())
            }
            5 => {
                let unsafe_ = self.is_unsafe();
                let r = if unsafe_ && self.rng.chance(1, 2) { bad_radix(self.rng, false) } else { radix_digits(self.rng) };
                let n = self.rng.below(40) as usize;
                let lim = (r.clamp(2, 256)) as u64;
                let mut digits: Vec<u64> = (0..n).map(|_| self.rng.below(lim)).collect();
                let f_order = self.rng.below(2) as i128;
                if self.rng.chance(1, 3) {
                    // redundant zero digits on the most significant side (end of the list for little-endian order)
                    let z = if self.rng.chance(1, 2) { self.rng.range(1, 4) } else { self.rng.range(20, 140) } as usize;
                    if f_order == 0 {
                        digits.extend(std::iter::repeat(0).take(z));
                    } else {
                        let mut v = vec![0u64; z];
                        v.extend(digits);
                        digits = v;
                    }
                }
                if unsafe_ && self.rng.chance(1, 3) && r < 256 && !digits.is_empty() {
                    digits[0] = (r.max(0) as u64).min(255); // a digit >= radix: must answer None
                }
                Step::new("u.from_radix").i("d", d).i("f", f_order).i("r", r).l("v", digits)
            }
            6 | 7 => {
                let unsafe_ = self.is_unsafe();
                let f = self.rng.below(3) as i128;
                let r = if f == 2 { 10 } else if unsafe_ && self.rng.chance(1, 2) { bad_radix(self.rng, true) } else { radix_text(self.rng) };
                let rr = r.clamp(2, 36) as u32;
                let mut txt = text_of(self.rng, &v, rr, false, true);
                if unsafe_ && self.rng.chance(1, 3) {
                    txt = self.rng.pick(&["", "_1", "-", "+", "1__2", "12 3", "-5", "z", "0x10", "\u{e9}"]).to_string();
                } else if self.rng.chance(1, 10) {
                    txt = self.tiny_text();
                }
                Step::new("u.parse").i("d", d).i("f", f).i("r", r).s("s", &txt)
            }
            8 => {
                let f = self.rng.below(8) as i128;
                let (t, k) = scalar(self.rng, f == 1 || f == 2);
                let k = if f == 4 { (self.rng.next_u64() >> self.rng.below(12)) as i128 } else { k };
                Step::new("u.from_prim").i("d", d).i("f", f).i("t", t).i("k", k)
            }
            9 => {
                let bits = match self.rng.below(6) {
                    0 => f64::NAN.to_bits(),
                    1 => f64::INFINITY.to_bits(),
                    2 => (-1.5f64).to_bits(),
                    3 => (self.rng.next_u64() as f64).to_bits(),
                    4 => f64::MAX.to_bits(),
                    _ => (self.rng.next_u64() >> 2) & 0x7fef_ffff_ffff_ffff,
                };
                Step::new("u.from_f64").i("d", d).i("k", bits as i128)
            }
            10 => Step::new("u.const").i("d", d).i("f", self.rng.below(4) as i128),
            _ => Step::new("u.from_i").i("d", d).i("a", self.ri()).i("f", self.rng.below(8) as i128),
        }
    }

    pub fn construct_i(&mut self, d: i128) -> Step {
        if self.p.arrivals && self.rng.chance(1, 8) {
            return self.arrival("i", d);
        }
        let v = self.val();
        let sg = *self.rng.pick(&[-1i128, -1, 0, 1, 1]);
        match self.rng.below(13) {
            0 => {
                let v = self.padded(v);
                Step::new("i.new").i("d", d).i("sg", sg).l32("v", &v)
            }
            1 => {
                let v = self.padded(v);
                Step::new("i.from_slice").i("d", d).i("sg", sg).l32("v", &v)
            }
            2 => {
                let v = self.padded(v);
                Step::new("i.assign_slice").i("d", d).i("sg", sg).l32("v", &v)
            }
            3 => Step::new("i.from_biguint").i("d", d).i("sg", sg).i("a", self.ru()).i("mv", self.rng.below(2) as i128),
            4 => Step::new("i.from_u").i("d", d).i("a", self.ru()).i("f", self.rng.below(3) as i128),
            5 | 6 => {
                let f = self.rng.below(6) as i128;
                let mut bytes = if f == 2 || f == 3 || f >= 4 {
                    crate::refnat::RefInt::new(sg < 0, crate::refnat::RefNat::from_u32s(&v)).to_signed_bytes_le()
                } else {
                    crate::refnat::RefNat::from_u32s(&v).to_bytes_le()
                };
                if self.rng.chance(1, 3) {
                    // sign-extension padding (signed forms) or zero padding (magnitude forms)
                    let pad = if (f == 2 || f == 3 || f >= 4) && bytes.last().map_or(false, |&b| b & 0x80 != 0) { 0xff } else { 0 };
                    for _ in 0..self.rng.range(1, 9) {
                        bytes.push(pad);
                    }
                }
                if self.rng.chance(1, 12) {
                    bytes.clear();
                }
                if f % 2 == 1 {
                    bytes.reverse();
                }
                Step::new("i.from_bytes").i("d", d).i("f", f).i("sg", sg).l("v", bytes.iter().map(|&b| b as u64).collect())
            }
            7 => {
                let unsafe_ = self.is_unsafe();
                let r = if unsafe_ && self.rng.chance(1, 2) { bad_radix(self.rng, false) } else { radix_digits(self.rng) };
                let n = self.rng.below(40) as usize;
                let lim = (r.clamp(2, 256)) as u64;
                let mut digits: Vec<u64> = (0..n).map(|_| self.rng.below(lim)).collect();
                let f_order = self.rng.below(2) as i128;
                if self.rng.chance(1, 3) {
                    let z = if self.rng.chance(1, 2) { self.rng.range(1, 4) } else { self.rng.range(20, 140) } as usize;
                    if f_order == 0 {
                        digits.extend(std::iter::repeat(0).take(z));
                    } else {
                        let mut v = vec![0u64; z];
                        v.extend(digits);
                        digits = v;
                    }
                }
                Step::new("i.from_radix").i("d", d).i("f", f_order).i("sg", sg).i("r", r).l("v", digits)
            }
            8 | 9 => {
                let unsafe_ = self.is_unsafe();
                let f = self.rng.below(3) as i128;
                let r = if f == 2 { 10 } else if unsafe_ && self.rng.chance(1, 2) { bad_radix(self.rng, true) } else { radix_text(self.rng) };
                let rr = r.clamp(2, 36) as u32;
                let mut txt = text_of(self.rng, &v, rr, sg < 0, true);
                if unsafe_ && self.rng.chance(1, 3) {
                    txt = self.rng.pick(&["", "_1", "-", "+", "--1", "+-1", "1__2", "12 3", "z", "-_1"]).to_string();
                } else if self.rng.chance(1, 10) {
                    txt = self.tiny_text();
                }
                Step::new("i.parse").i("d", d).i("f", f).i("r", r).s("s", &txt)
            }
            10 => {
                let f = self.rng.below(8) as i128;
                let (t, k) = scalar(self.rng, true);
                let k = if f == 3 { (self.rng.next_u64() >> self.rng.below(12)) as i128 } else { k };
                Step::new("i.from_prim").i("d", d).i("f", f).i("t", t).i("k", k)
            }
            11 => {
                let bits = match self.rng.below(6) {
                    0 => f64::NAN.to_bits(),
                    1 => f64::NEG_INFINITY.to_bits(),
                    2 => (-1.5f64).to_bits(),
                    3 => (-(self.rng.next_u64() as f64)).to_bits(),
                    4 => f64::MIN.to_bits(),
                    _ => self.rng.next_u64() & 0xffef_ffff_ffff_ffff,
                };
                Step::new("i.from_f64").i("d", d).i("k", bits as i128)
            }
            _ => Step::new("i.const").i("d", d).i("f", self.rng.below(5) as i128),
        }
    }

    fn shift_amount(&mut self, unsafe_: bool) -> (i128, i128) {
        let t = self.rng.below(12) as i128;
        let k: i128 = match self.rng.below(10) {
            0 => 0,
            1 => 1,
            2 => 63,
            3 => 64,
            4 => 65,
            5 => 64 * self.rng.range(1, 6) as i128,
            6 => 32 * self.rng.range(1, 9) as i128 + self.rng.below(2) as i128,
            7 if unsafe_ && t >= 6 => -(self.rng.range(1, 100) as i128),
            8 if self.rng.chance(1, 3) => {
                // amounts far beyond any value's length (shl of a non-zero value this far is skipped by the envelope)
                *self.rng.pick(&[(1i128 << 32) - 1, 1 << 32, (1 << 32) + 1, (1 << 31) - 1, u64::MAX as i128, i64::MAX as i128, u32::MAX as i128 * 64, 1 << 70, (1 << 70) + 63, i128::MAX, -1 /* u128::MAX after the cast */, 1 << 64, (1 << 64) * 64])
            }
            _ => self.rng.below(300) as i128,
        };
        // keep the amount representable in the type (u8: <=255, i8: <=127)
        let k = match t {
            0 => k.min(255),
            6 => k.clamp(-128, 127),
            _ => k,
        };
        (t, k)
    }

    /// One step of family `fam`; `big` selects the BigInt half of the vocabulary.
    pub fn step(&mut self, fam: usize, big: bool) -> Vec<Step> {
        let u = !big;
        let (d, a, b, c) = if u { (self.ru(), self.ru(), self.ru(), self.ru()) } else { (self.ri(), self.ri(), self.ri(), self.ri()) };
        let pre = if u { "u" } else { "i" };
        let mv = self.rng.below(2) as i128;
        match FAMILIES[fam] {
            "construct" => vec![if u { self.construct_u(d) } else { self.construct_i(d) }],
            "binop" => {
                let o = *self.rng.pick(&BIN_OPS);
                let s = Step::new(&format!("{pre}.bin")).s("o", o).i("f", self.rng.below(4) as i128).i("mv", mv).i("d", d).i("a", a).i("b", b);
                vec![self.safe(s)]
            }
            "assign" => {
                let o = *self.rng.pick(&BIN_OPS);
                let s = Step::new(&format!("{pre}.asn")).s("o", o).i("f", self.rng.below(2) as i128).i("mv", mv).i("d", d).i("b", b);
                vec![self.safe(s)]
            }
            "scalar" => {
                if self.rng.chance(1, 8) {
                    let (t, k) = scalar(self.rng, true);
                    let s = Step::new(&format!("{pre}.primrem")).i("t", t).i("k", k).i("f", self.rng.below(if u { 2 } else { 4 }) as i128).i("d", d).i("b", b);
                    return vec![self.safe(s)];
                }
                let (t, k) = scalar(self.rng, !u);
                let o = *self.rng.pick(&SC_OPS);
                let s = Step::new(&format!("{pre}.sc")).s("o", o).i("t", t).i("k", k).i("f", self.rng.below(9) as i128).i("mv", mv).i("d", d).i("a", a);
                vec![self.safe(s)]
            }
            "shift" => {
                let unsafe_ = self.is_unsafe();
                let (t, k) = self.shift_amount(unsafe_);
                let op = if self.rng.chance(1, 2) { "shl" } else { "shr" };
                vec![Step::new(&format!("{pre}.{op}")).i("t", t).i("k", k).i("f", self.rng.below(6) as i128).i("mv", mv).i("d", d).i("a", a)]
            }
            "mutate" => {
                let which = self.rng.below(if u { 10 } else { 11 });
                let s = match which {
                    0 | 1 => {
                        let k = match self.rng.below(7) {
                            6 => self.rng.below(3),
                            0 => 0,
                            1 => 63,
                            2 => 64,
                            3 => 64 * self.rng.range(1, 8) - 1,
                            4 => 64 * self.rng.range(1, 8),
                            _ => self.rng.below(700),
                        };
                        Step::new(&format!("{pre}.set_bit")).i("d", d).i("k", k as i128).i("f", self.rng.below(2) as i128)
                    }
                    2 => Step::new(&format!("{pre}.set_zero")).i("d", d),
                    3 => Step::new(&format!("{pre}.set_one")).i("d", d),
                    4 => Step::new(&format!("{pre}.inc")).i("d", d),
                    5 => {
                        let s = Step::new(&format!("{pre}.dec")).i("d", d);
                        self.safe(s)
                    }
                    6 => Step::new(&format!("{pre}.clone_from")).i("d", d).i("a", a),
                    7 => Step::new(&format!("{pre}.clone")).i("d", d).i("a", a),
                    8 => Step::new(&format!("{pre}.swap")).i("d", d).i("a", a),
                    9 => Step::new(&format!("{pre}.take")).i("d", d).i("a", a),
                    _ => Step::new("i.unary").s("o", *self.rng.pick(&["neg", "not", "abs", "signum"])).i("f", self.rng.below(2) as i128).i("mv", mv).i("d", d).i("a", a),
                };
                vec![s]
            }
            "power" => {
                let unsafe_ = self.is_unsafe();
                let s = match self.rng.below(8) {
                    0 | 1 => {
                        let t = self.rng.below(6) as i128;
                        let k = if self.rng.chance(1, 12) {
                            // exponents at the edges of the exponent type (executed only for bases 0 and 1)
                            *self.rng.pick(&[u32::MAX as i128, u64::MAX as i128, -1i128, (u32::MAX as i128) + 1, 255, 256, 65535, 65536])
                        } else {
                            *self.rng.pick(&[0i128, 1, 2, 3, 5, 8, 17, 64])
                        };
                        Step::new(&format!("{pre}.pow")).i("t", t).i("k", k).i("f", self.rng.below(5) as i128).i("mv", mv).i("d", d).i("a", a)
                    }
                    2 if u => Step::new("u.powbig").i("f", self.rng.below(4) as i128).i("d", d).i("a", a).i("b", b),
                    3 => Step::new(&format!("{pre}.modpow")).i("d", d).i("a", a).i("b", b).i("c", c),
                    4 => Step::new(&format!("{pre}.modinv")).i("d", d).i("a", a).i("b", b),
                    _ => {
                        let o = *self.rng.pick(&["sqrt", "cbrt", "nth", "nth"]);
                        let k = if unsafe_ && self.rng.chance(1, 3) { 0 } else { *self.rng.pick(&[1i128, 2, 3, 4, 5, 7, 16, 33, 64, 1000, u32::MAX as i128]) };
                        Step::new(&format!("{pre}.root")).s("o", o).i("k", k).i("f", self.rng.below(2) as i128).i("d", d).i("a", a)
                    }
                };
                vec![self.safe(s)]
            }
            "integer" => {
                if self.p.arrivals && self.rng.chance(1, 12) {
                    // bounded random sampling between two registers (fails for an empty / inverted range)
                    let w: Vec<u32> = (0..self.rng.range(0, 12)).map(|_| self.rng.word32()).collect();
                    let s = Step::new(&format!("{pre}.rand")).i("f", self.rng.below(8) as i128).i("d", d).i("a", a).i("b", b).l32("v", &w);
                    return vec![self.safe(s)];
                }
                let o = if u { *self.rng.pick(&U_INT_OPS) } else { *self.rng.pick(&I_INT_OPS) };
                let s = Step::new(&format!("{pre}.int")).s("o", o).i("d", d).i("a", a).i("b", b);
                vec![self.safe(s)]
            }
            "checked" => {
                let o = *self.rng.pick(&CHECKED_OPS);
                vec![Step::new(&format!("{pre}.checked")).s("o", o).i("f", self.rng.below(2) as i128).i("d", d).i("a", a).i("b", b)]
            }
            "export" => {
                let unsafe_ = self.is_unsafe();
                if self.rng.chance(1, 10) {
                    return vec![Step::new(&format!("{pre}.to_str_seq")).i("a", a).i("k", self.rng.below(10) as i128).i("f", self.rng.below(2) as i128)];
                }
                let s = match self.rng.below(if self.p.text_heavy { 6 } else { 10 }) {
                    0 | 1 => {
                        let r = if unsafe_ && self.rng.chance(1, 2) { bad_radix(self.rng, true) } else { radix_text(self.rng) };
                        Step::new(&format!("{pre}.to_str")).i("a", a).i("r", r)
                    }
                    2 => Step::new(&format!("{pre}.fmt")).i("a", a).i("f", self.rng.below(18) as i128),
                    3 => {
                        let r = if unsafe_ && self.rng.chance(1, 2) { bad_radix(self.rng, false) } else { radix_digits(self.rng) };
                        Step::new(&format!("{pre}.to_radix")).i("a", a).i("f", self.rng.below(2) as i128).i("r", r)
                    }
                    4 => Step::new(&format!("{pre}.to_bytes")).i("a", a).i("f", self.rng.below(if u { 5 } else { 7 }) as i128),
                    5 => Step::new(&format!("{pre}.to_prim")).i("a", a).i("t", self.rng.below(28) as i128),
                    6 => Step::new(&format!("{pre}.to_digits")).i("a", a).i("f", self.rng.below(2) as i128),
                    7 => Step::new(&format!("{pre}.sum")).i("d", d).i("k", self.rng.below(64) as i128).i("f", self.rng.below(4) as i128),
                    _ => Step::new(&format!("{pre}.query")).i("a", a).i("b", b).i("f", self.rng.below(13) as i128).i("k", self.rng.below(400) as i128),
                };
                vec![s]
            }
            "convert" => {
                // movement between the two register files
                let s = if self.rng.chance(1, 2) {
                    Step::new("u.from_i").i("d", self.ru()).i("a", self.ri()).i("f", self.rng.below(8) as i128)
                } else if self.rng.chance(1, 2) {
                    Step::new("i.from_u").i("d", self.ri()).i("a", self.ru()).i("f", self.rng.below(2) as i128)
                } else {
                    let sg = *self.rng.pick(&[-1i128, 0, 1]);
                    Step::new("i.from_biguint").i("d", self.ri()).i("sg", sg).i("a", self.ru()).i("mv", mv)
                };
                vec![s]
            }
            _ => self.detour(u),
        }
    }

    /// Round-trip detours: a different route that should land on a value already present.
    fn detour(&mut self, u: bool) -> Vec<Step> {
        let pre = if u { "u" } else { "i" };
        let n = if u { NU } else { NI } as u64;
        let src = self.rng.below(n) as i128;
        let mut dst = self.rng.below(n) as i128;
        if dst == src {
            dst = (dst + 1) % n as i128;
        }
        let mut other = self.rng.below(n) as i128;
        if other == dst {
            other = (other + 1) % n as i128;
        }
        let copy = if self.rng.chance(1, 2) {
            Step::new(&format!("{pre}.clone")).i("d", dst).i("a", src)
        } else {
            Step::new(&format!("{pre}.clone_from")).i("d", dst).i("a", src)
        };
        let asn = |o: &str, f: i128| Step::new(&format!("{pre}.asn")).s("o", o).i("f", f).i("d", dst).i("b", other).i("safe", 1);
        let mut v = vec![copy];
        if self.rng.chance(1, 10) {
            // primitive -> big -> the same and the neighbouring primitive types (MIN / MAX edges of every type)
            let (t, k) = scalar(self.rng, !u);
            let mut v = vec![Step::new(&format!("{pre}.from_prim")).i("d", dst).i("f", 0).i("t", t).i("k", k)];
            for tt in [t, (t + 1) % 12, 12, 14 + self.rng.below(14) as i128] {
                v.push(Step::new(&format!("{pre}.to_prim")).i("a", dst).i("t", tt));
            }
            return v;
        }
        if self.rng.chance(1, 7) {
            // exact cancellation through every scalar operator form: x := k, then x - k, k - x, (-x) + k, k + (-x)
            // must all give a canonical zero (NoSign, no digits), for every scalar type incl. MIN / MAX / wide values
            let (t, k) = scalar(self.rng, !u);
            let f = self.rng.below(9) as i128;
            let mut v = vec![Step::new(&format!("{pre}.from_prim")).i("d", dst).i("f", 0).i("t", t).i("k", k)];
            if !u && self.rng.chance(1, 2) {
                v.push(Step::new("i.unary").s("o", "neg").i("f", 1).i("mv", 1).i("d", dst).i("a", dst));
                v.push(Step::new("i.sc").s("o", "add").i("t", t).i("k", k).i("f", f).i("mv", self.rng.below(2) as i128).i("d", dst).i("a", dst));
            } else {
                v.push(Step::new(&format!("{pre}.sc")).s("o", "sub").i("t", t).i("k", k).i("f", f).i("mv", self.rng.below(2) as i128).i("d", dst).i("a", dst));
            }
            return v;
        }
        match self.rng.below(7) {
            0 => {
                v.push(asn("add", self.rng.below(2) as i128));
                v.push(asn("sub", self.rng.below(2) as i128));
            }
            1 => {
                let k = *self.rng.pick(&[1i128, 31, 32, 63, 64, 65, 128, 200]);
                let t = self.rng.below(6) as i128;
                v.push(Step::new(&format!("{pre}.shl")).i("t", t).i("k", k).i("f", 2).i("d", dst));
                v.push(Step::new(&format!("{pre}.shr")).i("t", t).i("k", k).i("f", 2).i("d", dst));
            }
            2 => {
                v.push(asn("mul", 0));
                v.push(asn("div", 0));
            }
            3 => {
                v.push(asn("xor", self.rng.below(2) as i128));
                v.push(asn("xor", self.rng.below(2) as i128));
            }
            4 => {
                // set then clear a bit above the current top
                let k = 64 * self.rng.range(2, 12) as i128 + self.rng.below(64) as i128;
                if u {
                    v.push(Step::new("u.set_bit").i("d", dst).i("k", k).i("f", 1));
                    v.push(Step::new("u.set_bit").i("d", dst).i("k", k).i("f", 0));
                } else {
                    v.push(Step::new("i.unary").s("o", "neg").i("f", 1).i("mv", 1).i("d", dst).i("a", dst));
                    v.push(Step::new("i.unary").s("o", "neg").i("f", 0).i("d", dst).i("a", dst));
                }
            }
            5 => {
                let (t, k) = scalar(self.rng, !u);
                let k = if k == 0 { 1 } else { k };
                v.push(Step::new(&format!("{pre}.sc")).s("o", "mul").i("t", t).i("k", k).i("f", 4).i("d", dst).i("safe", 1));
                v.push(Step::new(&format!("{pre}.sc")).s("o", "div").i("t", t).i("k", k).i("f", 4).i("d", dst).i("safe", 1));
            }
            _ => {
                let (t, k) = scalar(self.rng, false);
                v.push(Step::new(&format!("{pre}.sc")).s("o", "add").i("t", t).i("k", k).i("f", 4).i("d", dst).i("safe", 1));
                v.push(Step::new(&format!("{pre}.sc")).s("o", "sub").i("t", t).i("k", k).i("f", 4).i("d", dst).i("safe", 1));
            }
        }
        v
    }

    pub fn history(&mut self) -> Vec<Step> {
        let mut steps = Vec::new();
        // registers start from the pool by diverse constructors
        for d in 0..NU {
            if self.rng.chance(4, 5) {
                let s = self.construct_u(d as i128);
                steps.push(s);
            }
        }
        for d in 0..NI {
            if self.rng.chance(4, 5) {
                let s = self.construct_i(d as i128);
                steps.push(s);
            }
        }
        let n = self.rng.range(self.p.steps.0, self.p.steps.1);
        // swarm: knock out a random subset of families for this run
        let mut w = self.p.weights;
        for x in w.iter_mut() {
            if self.rng.chance(1, 4) {
                *x = 0;
            }
        }
        if w.iter().all(|&x| x == 0) {
            w = self.p.weights;
        }
        let bigint_share = self.rng.below(5); // 0..4 of 4
        let mut count = 0;
        while count < n {
            let fam = self.rng.weighted(&w);
            let big = self.rng.below(4) < bigint_share;
            let ss = self.step(fam, big);
            count += ss.len() as u64;
            steps.extend(ss);
        }
        steps
    }
}
