//! Seams owned by the simulator: the RNG (S1). Serde endpoints live in scn_c17, the allocator in simalloc.

use rand::RngCore;

/// A byte-stream RNG: a scripted prefix followed by zero bytes for ever ("heal").
/// Every call is logged; `try_fill_bytes` can be made to fail at the k-th fill call.
#[derive(Clone, Debug)]
pub struct SimRng {
    pub bytes: Vec<u8>,
    pub pos: usize,
    pub fill_calls: u64,
    pub word_calls: u64,
    /// fail the fill call with this ordinal (0-based); u64::MAX = never
    pub fail_at: u64,
    pub failed: bool,
    /// largest single fill request, for reporting
    pub max_fill: usize,
    /// a virtual prefix of this many all-ones bytes in front of the script (a long stuck-at fault)
    pub stuck_ones: usize,
}

impl SimRng {
    pub fn from_words(words: &[u32]) -> SimRng {
        let mut bytes = Vec::with_capacity(words.len() * 4);
        for w in words {
            bytes.extend_from_slice(&w.to_le_bytes());
        }
        SimRng {
            bytes,
            pos: 0,
            fill_calls: 0,
            word_calls: 0,
            fail_at: u64::MAX,
            failed: false,
            max_fill: 0,
            stuck_ones: 0,
        }
    }
    #[inline]
    fn byte_at(&self, pos: usize) -> u8 {
        if pos < self.stuck_ones {
            0xff
        } else {
            self.bytes.get(pos - self.stuck_ones).copied().unwrap_or(0)
        }
    }
    #[inline]
    fn take(&mut self, dest: &mut [u8]) {
        for d in dest.iter_mut() {
            *d = self.byte_at(self.pos);
            self.pos += 1;
        }
    }
    /// Peek the 32-bit word `i` words after byte position `pos` (zero beyond the script).
    pub fn word_at(&self, pos: usize, i: usize) -> u32 {
        let mut b = [0u8; 4];
        for (k, x) in b.iter_mut().enumerate() {
            *x = self.byte_at(pos + 4 * i + k);
        }
        u32::from_le_bytes(b)
    }
    pub fn healed(&self) -> bool {
        self.pos >= self.bytes.len() + self.stuck_ones
    }
}

impl RngCore for SimRng {
    fn next_u32(&mut self) -> u32 {
        self.word_calls += 1;
        let mut b = [0u8; 4];
        self.take(&mut b);
        u32::from_le_bytes(b)
    }
    fn next_u64(&mut self) -> u64 {
        self.word_calls += 1;
        let mut b = [0u8; 8];
        self.take(&mut b);
        u64::from_le_bytes(b)
    }
    fn fill_bytes(&mut self, dest: &mut [u8]) {
        self.fill_calls += 1;
        self.max_fill = self.max_fill.max(dest.len());
        self.take(dest);
    }
    fn try_fill_bytes(&mut self, dest: &mut [u8]) -> Result<(), rand::Error> {
        let ord = self.fill_calls;
        self.fill_calls += 1;
        self.max_fill = self.max_fill.max(dest.len());
        if ord == self.fail_at {
            self.failed = true;
            return Err(rand::Error::from(
                core::num::NonZeroU32::new(rand::Error::CUSTOM_START).unwrap(),
            ));
        }
        self.take(dest);
        Ok(())
    }
}
