//! C17: serde endpoints owned by the simulator (seam S2).
//! A recording `Serializer`, a replaying `Deserializer`, and a faulty token transport between them.

use crate::obs::{denote_i, denote_u, noncanonical_i, noncanonical_u};
use crate::plan::{fnv, Digest, Plan, Step};
use crate::prng::Prng;
use crate::refnat::{RefInt, RefNat};
use crate::simalloc;
use crate::sup::{at_step, catch, RunResult};
use num_bigint::{BigInt, BigUint, Sign};
use serde::de::{self, DeserializeSeed, Deserializer, SeqAccess, Visitor};
use serde::ser::{self, Serialize, SerializeSeq, SerializeTuple, Serializer};
use std::cell::RefCell;
use std::fmt;

const P: &str = "C17";

#[derive(Clone, Debug, PartialEq)]
pub enum Tok {
    Seq(Option<usize>),
    Tuple(usize),
    U32(u32),
    U64(u64),
    I8(i8),
    I64(i64),
    End,
    Other(&'static str),
    /// transport shorthand for this many consecutive `U32(0)` elements (only used for values too long to hold as a token vector)
    ZeroRun(u64),
}

#[derive(Debug, Clone, PartialEq)]
pub enum SimErr {
    Injected(usize),
    Eof,
    Custom(String),
}
impl fmt::Display for SimErr {
    fn fmt(&self, f: &mut fmt::Formatter<'_>) -> fmt::Result {
        write!(f, "{:?}", self)
    }
}
impl de::StdError for SimErr {}
impl ser::Error for SimErr {
    fn custom<T: fmt::Display>(msg: T) -> Self {
        SimErr::Custom(msg.to_string())
    }
}
impl de::Error for SimErr {
    fn custom<T: fmt::Display>(msg: T) -> Self {
        SimErr::Custom(msg.to_string())
    }
}

// ---- recording serializer -------------------------------------------------------------------

pub struct Tape {
    pub toks: Vec<Tok>,
    pub fail_at: Option<usize>,
    pub fired: bool,
    pub human: bool,
    /// streaming peer: zero digits are counted instead of stored (`toks` then holds every other token, and
    /// `zeros_before[i]` the number of zero digits seen before `toks[i]`)
    pub fold: bool,
    pub zeros: u64,
    pub zeros_before: Vec<u64>,
}
impl Tape {
    fn emit(&mut self, t: Tok) -> Result<(), SimErr> {
        if self.fold {
            if t == Tok::U32(0) {
                self.zeros += 1;
            } else if self.toks.len() < 4096 {
                self.toks.push(t);
                self.zeros_before.push(self.zeros);
            }
            return Ok(());
        }
        if self.fail_at == Some(self.toks.len()) && !self.fired {
            self.fired = true;
            return Err(SimErr::Injected(self.toks.len()));
        }
        self.toks.push(t);
        Ok(())
    }
}

pub struct TokSer<'a>(pub &'a RefCell<Tape>);
pub struct TokSeq<'a>(&'a RefCell<Tape>);

macro_rules! other_prim {
    ($($m:ident : $t:ty => $name:expr),*) => {
        $(fn $m(self, _v: $t) -> Result<(), SimErr> { self.0.borrow_mut().emit(Tok::Other($name)) })*
    };
}

impl<'a> Serializer for TokSer<'a> {
    type Ok = ();
    type Error = SimErr;
    type SerializeSeq = TokSeq<'a>;
    type SerializeTuple = TokSeq<'a>;
    type SerializeTupleStruct = ser::Impossible<(), SimErr>;
    type SerializeTupleVariant = ser::Impossible<(), SimErr>;
    type SerializeMap = ser::Impossible<(), SimErr>;
    type SerializeStruct = ser::Impossible<(), SimErr>;
    type SerializeStructVariant = ser::Impossible<(), SimErr>;

    fn serialize_u32(self, v: u32) -> Result<(), SimErr> {
        self.0.borrow_mut().emit(Tok::U32(v))
    }
    fn serialize_i8(self, v: i8) -> Result<(), SimErr> {
        self.0.borrow_mut().emit(Tok::I8(v))
    }
    fn serialize_u64(self, v: u64) -> Result<(), SimErr> {
        self.0.borrow_mut().emit(Tok::U64(v))
    }
    fn serialize_i64(self, v: i64) -> Result<(), SimErr> {
        self.0.borrow_mut().emit(Tok::I64(v))
    }
    other_prim!(serialize_bool: bool => "bool", serialize_i16: i16 => "i16", serialize_i32: i32 => "i32",
        serialize_u8: u8 => "u8", serialize_u16: u16 => "u16",
        serialize_f32: f32 => "f32", serialize_f64: f64 => "f64", serialize_char: char => "char",
        serialize_str: &str => "str", serialize_bytes: &[u8] => "bytes");
    fn serialize_none(self) -> Result<(), SimErr> {
        self.0.borrow_mut().emit(Tok::Other("none"))
    }
    fn serialize_some<T: ?Sized + Serialize>(self, _v: &T) -> Result<(), SimErr> {
        self.0.borrow_mut().emit(Tok::Other("some"))
    }
    fn serialize_unit(self) -> Result<(), SimErr> {
        self.0.borrow_mut().emit(Tok::Other("unit"))
    }
    fn serialize_unit_struct(self, _n: &'static str) -> Result<(), SimErr> {
        self.0.borrow_mut().emit(Tok::Other("unit_struct"))
    }
    fn serialize_unit_variant(self, _n: &'static str, _i: u32, _v: &'static str) -> Result<(), SimErr> {
        self.0.borrow_mut().emit(Tok::Other("unit_variant"))
    }
    fn serialize_newtype_struct<T: ?Sized + Serialize>(self, _n: &'static str, _v: &T) -> Result<(), SimErr> {
        self.0.borrow_mut().emit(Tok::Other("newtype_struct"))
    }
    fn serialize_newtype_variant<T: ?Sized + Serialize>(
        self,
        _n: &'static str,
        _i: u32,
        _v: &'static str,
        _x: &T,
    ) -> Result<(), SimErr> {
        self.0.borrow_mut().emit(Tok::Other("newtype_variant"))
    }
    fn serialize_seq(self, len: Option<usize>) -> Result<TokSeq<'a>, SimErr> {
        self.0.borrow_mut().emit(Tok::Seq(len))?;
        Ok(TokSeq(self.0))
    }
    fn serialize_tuple(self, len: usize) -> Result<TokSeq<'a>, SimErr> {
        self.0.borrow_mut().emit(Tok::Tuple(len))?;
        Ok(TokSeq(self.0))
    }
    fn serialize_tuple_struct(self, _n: &'static str, _l: usize) -> Result<Self::SerializeTupleStruct, SimErr> {
        Err(SimErr::Custom("tuple_struct".into()))
    }
    fn serialize_tuple_variant(
        self,
        _n: &'static str,
        _i: u32,
        _v: &'static str,
        _l: usize,
    ) -> Result<Self::SerializeTupleVariant, SimErr> {
        Err(SimErr::Custom("tuple_variant".into()))
    }
    fn serialize_map(self, _l: Option<usize>) -> Result<Self::SerializeMap, SimErr> {
        Err(SimErr::Custom("map".into()))
    }
    fn serialize_struct(self, _n: &'static str, _l: usize) -> Result<Self::SerializeStruct, SimErr> {
        Err(SimErr::Custom("struct".into()))
    }
    fn serialize_struct_variant(
        self,
        _n: &'static str,
        _i: u32,
        _v: &'static str,
        _l: usize,
    ) -> Result<Self::SerializeStructVariant, SimErr> {
        Err(SimErr::Custom("struct_variant".into()))
    }
    fn collect_str<T: ?Sized + fmt::Display>(self, _v: &T) -> Result<(), SimErr> {
        self.0.borrow_mut().emit(Tok::Other("str"))
    }
    fn is_human_readable(&self) -> bool {
        self.0.borrow().human
    }
}

impl<'a> SerializeSeq for TokSeq<'a> {
    type Ok = ();
    type Error = SimErr;
    fn serialize_element<T: ?Sized + Serialize>(&mut self, v: &T) -> Result<(), SimErr> {
        v.serialize(TokSer(self.0))
    }
    fn end(self) -> Result<(), SimErr> {
        self.0.borrow_mut().emit(Tok::End)
    }
}
impl<'a> SerializeTuple for TokSeq<'a> {
    type Ok = ();
    type Error = SimErr;
    fn serialize_element<T: ?Sized + Serialize>(&mut self, v: &T) -> Result<(), SimErr> {
        v.serialize(TokSer(self.0))
    }
    fn end(self) -> Result<(), SimErr> {
        self.0.borrow_mut().emit(Tok::End)
    }
}

// ---- replaying deserializer -----------------------------------------------------------------

pub struct Feed {
    pub toks: Vec<Tok>,
    pub pos: usize,
    pub reads: usize,
    pub fail_at: Option<usize>,
    pub fired: bool,
    /// size_hint policy: None => None; Some(h) => Some(h) for every sequence
    pub hint: HintMode,
    /// how an unsigned element is handed to the visitor: 0 as u32, 1 narrowest unsigned type, 2 always u64, 3 i64
    pub deliver: u8,
    pub human: bool,
    /// a non-self-describing peer: the `deserialize_*` method called must match what was written
    /// (a tuple must be requested as a tuple, a sequence as a sequence, a number as a number)
    pub strict: bool,
    /// elements of the current `ZeroRun` token already delivered
    pub run_done: u64,
}
#[derive(Clone, Copy, Debug, PartialEq)]
pub enum HintMode {
    NoneHint,
    Exact,
    Fixed(usize),
    Short,
    /// a little less than the truth: remaining - k
    Minus(usize),
}
impl Feed {
    fn next(&mut self) -> Result<Tok, SimErr> {
        if self.fail_at == Some(self.reads) && !self.fired {
            self.fired = true;
            return Err(SimErr::Injected(self.reads));
        }
        self.reads += 1;
        self.skip_spent_run();
        let t = self.toks.get(self.pos).cloned().ok_or(SimErr::Eof)?;
        if let Tok::ZeroRun(_) = t {
            self.run_done += 1;
            return Ok(Tok::U32(0));
        }
        self.pos += 1;
        Ok(t)
    }
    fn skip_spent_run(&mut self) {
        while let Some(Tok::ZeroRun(k)) = self.toks.get(self.pos) {
            if self.run_done < *k {
                break;
            }
            self.pos += 1;
            self.run_done = 0;
        }
    }
    fn peek(&self) -> Option<&Tok> {
        let mut pos = self.pos;
        let mut done = self.run_done;
        while let Some(Tok::ZeroRun(k)) = self.toks.get(pos) {
            if done < *k {
                break;
            }
            pos += 1;
            done = 0;
        }
        self.toks.get(pos)
    }
    /// number of elements up to the matching End from the current position (depth-aware)
    fn remaining_in_seq(&self) -> usize {
        let mut depth = 0usize;
        let mut n = 0usize;
        for t in &self.toks[self.pos.min(self.toks.len())..] {
            match t {
                Tok::Seq(_) | Tok::Tuple(_) => {
                    if depth == 0 {
                        n += 1;
                    }
                    depth += 1;
                }
                Tok::End => {
                    if depth == 0 {
                        return n;
                    }
                    depth -= 1;
                }
                _ => {
                    if depth == 0 {
                        n += 1;
                    }
                }
            }
        }
        n
    }
}

pub struct TokDe<'a>(pub &'a RefCell<Feed>);

struct Acc<'a>(&'a RefCell<Feed>);

impl<'de, 'a> SeqAccess<'de> for Acc<'a> {
    type Error = SimErr;
    fn next_element_seed<T: DeserializeSeed<'de>>(&mut self, seed: T) -> Result<Option<T::Value>, SimErr> {
        let is_end = matches!(self.0.borrow().peek(), Some(Tok::End));
        if is_end {
            self.0.borrow_mut().next()?;
            return Ok(None);
        }
        if self.0.borrow().peek().is_none() {
            // the peer hung up in the middle of a sequence
            self.0.borrow_mut().next()?;
        }
        seed.deserialize(TokDe(self.0)).map(Some)
    }
    fn size_hint(&self) -> Option<usize> {
        let f = self.0.borrow();
        match f.hint {
            HintMode::NoneHint => None,
            HintMode::Exact => Some(f.remaining_in_seq()),
            HintMode::Fixed(h) => Some(h),
            HintMode::Short => Some(f.remaining_in_seq() / 2),
            HintMode::Minus(k) => Some(f.remaining_in_seq().saturating_sub(k)),
        }
    }
}

impl<'de, 'a> Deserializer<'de> for TokDe<'a> {
    type Error = SimErr;
    fn deserialize_any<V: Visitor<'de>>(self, visitor: V) -> Result<V::Value, SimErr> {
        let t = self.0.borrow_mut().next()?;
        let deliver = self.0.borrow().deliver;
        match t {
            Tok::U32(v) => match deliver {
                1 if v <= u8::MAX as u32 => visitor.visit_u8(v as u8),
                1 if v <= u16::MAX as u32 => visitor.visit_u16(v as u16),
                2 => visitor.visit_u64(v as u64),
                3 => visitor.visit_i64(v as i64),
                _ => visitor.visit_u32(v),
            },
            Tok::U64(v) => visitor.visit_u64(v),
            Tok::I8(v) => match deliver {
                1 if v >= 0 => visitor.visit_u8(v as u8),
                2 | 3 => visitor.visit_i64(v as i64),
                _ => visitor.visit_i8(v),
            },
            Tok::I64(v) => visitor.visit_i64(v),
            Tok::Seq(_) | Tok::Tuple(_) => {
                let r = visitor.visit_seq(Acc(self.0))?;
                // a well-behaved format checks that the visitor consumed the whole sequence
                let at_end = matches!(self.0.borrow().peek(), Some(Tok::End));
                if at_end {
                    self.0.borrow_mut().next()?;
                }
                Ok(r)
            }
            Tok::End => Err(SimErr::Custom("unexpected end of sequence".into())),
            Tok::Other(n) => Err(SimErr::Custom(format!("unsupported token {n}"))),
            Tok::ZeroRun(_) => Err(SimErr::Custom("harness: zero run not expanded".into())),
        }
    }
    fn deserialize_seq<V: Visitor<'de>>(self, visitor: V) -> Result<V::Value, SimErr> {
        let (strict, ok) = {
            let f = self.0.borrow();
            (f.strict, matches!(f.peek(), Some(Tok::Seq(_)) | None))
        };
        if strict && !ok {
            return Err(SimErr::Custom("format mismatch: deserialize_seq called where the peer did not write a sequence".into()));
        }
        self.deserialize_any(visitor)
    }
    fn deserialize_tuple<V: Visitor<'de>>(self, len: usize, visitor: V) -> Result<V::Value, SimErr> {
        let (strict, ok) = {
            let f = self.0.borrow();
            (f.strict, match f.peek() { Some(Tok::Tuple(n)) => *n == len, None => true, _ => false })
        };
        if strict && !ok {
            return Err(SimErr::Custom(format!("format mismatch: deserialize_tuple({len}) called where the peer did not write such a tuple")));
        }
        self.deserialize_any(visitor)
    }
    serde::forward_to_deserialize_any! {
        bool i8 i16 i32 i64 i128 u8 u16 u32 u64 u128 f32 f64 char str string
        bytes byte_buf option unit unit_struct newtype_struct
        tuple_struct map struct enum identifier ignored_any
    }
    fn is_human_readable(&self) -> bool {
        self.0.borrow().human
    }
}

// ---- helpers -------------------------------------------------------------------------------------

fn model_tokens_u(n: &RefNat) -> Vec<Tok> {
    let mut t = vec![Tok::Seq(Some(n.0.len()))];
    t.extend(n.0.iter().map(|&w| Tok::U32(w)));
    t.push(Tok::End);
    t
}
fn model_tokens_i(n: &RefInt) -> Vec<Tok> {
    let s = if n.mag.is_zero() {
        0
    } else if n.neg {
        -1
    } else {
        1
    };
    let mut t = vec![Tok::Tuple(2), Tok::I8(s)];
    t.extend(model_tokens_u(&n.mag));
    t.push(Tok::End);
    t
}

pub use crate::obs::build_u;

/// History oracle of C17 (scenario `c17h`): whatever sequence of operations produced the object, its serialized form
/// is the model's token sequence for the integer it denotes (sign token, minimal little-endian u32 digits, exact
/// length) and a fresh deserialization of those tokens equals it. `None` = fine.
pub fn history_oracle_u(x: &num_bigint::BigUint) -> Option<(&'static str, String)> {
    let want = model_tokens_u(&RefNat::from_u32s(&crate::obs::denote_u(x).0).shr(0));
    let (r, toks, _) = ser_tokens(x, None);
    if let Err(e) = r {
        return Some(("ser-error", format!("serialize failed: {e}")));
    }
    if toks != want {
        return Some(("ser-model", format!("serialized as {:?}, the value's portable form is {:?}", &toks[..toks.len().min(12)], &want[..want.len().min(12)])));
    }
    let (back, _) = de_tokens::<num_bigint::BigUint>(toks, HintMode::Exact, None);
    match back {
        Ok(y) if &y == x && crate::obs::noncanonical_u(&y).is_none() => None,
        Ok(y) => Some(("roundtrip", format!("deserialize(serialize(x)) = {:x?} for x = {:x?}", y.to_u32_digits(), x.to_u32_digits()))),
        Err(e) => Some(("reject-valid", format!("own output rejected: {e}"))),
    }
}

pub fn history_oracle_i(x: &num_bigint::BigInt) -> Option<(&'static str, String)> {
    let d = crate::obs::denote_i(x);
    let want = model_tokens_i(&RefInt::new(d.neg, d.mag.shr(0)));
    let (r, toks, _) = ser_tokens(x, None);
    if let Err(e) = r {
        return Some(("ser-error", format!("serialize failed: {e}")));
    }
    if toks != want {
        return Some(("ser-model", format!("serialized as {:?}, the value's portable form is {:?}", &toks[..toks.len().min(12)], &want[..want.len().min(12)])));
    }
    let (back, _) = de_tokens::<num_bigint::BigInt>(toks, HintMode::Exact, None);
    match back {
        Ok(y) if &y == x && crate::obs::noncanonical_i(&y).is_none() => None,
        Ok(y) => Some(("roundtrip", format!("deserialize(serialize(x)) = {:?} for x = {:?}", y.to_u32_digits(), x.to_u32_digits()))),
        Err(e) => Some(("reject-valid", format!("own output rejected: {e}"))),
    }
}

fn ser_tokens<T: Serialize>(v: &T, fail_at: Option<usize>) -> (Result<(), SimErr>, Vec<Tok>, bool) {
    ser_tokens_h(v, fail_at, false)
}

fn ser_tokens_h<T: Serialize>(v: &T, fail_at: Option<usize>, human: bool) -> (Result<(), SimErr>, Vec<Tok>, bool) {
    let tape = RefCell::new(Tape {
        toks: vec![],
        fail_at,
        fired: false,
        human,
        fold: false,
        zeros: 0,
        zeros_before: vec![],
    });
    let r = v.serialize(TokSer(&tape));
    let t = tape.into_inner();
    (r, t.toks, t.fired)
}

thread_local! {
    /// swarm bit of the current exchange: is the replaying peer strict about the requested shapes?
    pub static STRICT: std::cell::Cell<bool> = std::cell::Cell::new(false);
    /// after a failed deserialize_in_place: what the place looks like (canonical or not)
    pub static PLACE_AFTER_ERR: RefCell<Option<String>> = RefCell::new(None);
}

pub fn de_tokens<'de, T: serde::Deserialize<'de> + 'static>(
    toks: Vec<Tok>,
    hint: HintMode,
    fail_at: Option<usize>,
) -> (Result<T, SimErr>, Feed) {
    de_tokens_with::<T>(toks, hint, fail_at, 0, false, None)
}

/// `deliver`/`human`: how the simulated format talks to the visitor; `in_place`: deserialize into an
/// existing object (`Deserialize::deserialize_in_place`) instead of creating a new one.
pub fn de_tokens_with<'de, T: serde::Deserialize<'de> + 'static>(
    toks: Vec<Tok>,
    hint: HintMode,
    fail_at: Option<usize>,
    deliver: u8,
    human: bool,
    in_place: Option<T>,
) -> (Result<T, SimErr>, Feed) {
    let feed = RefCell::new(Feed {
        toks,
        pos: 0,
        reads: 0,
        fail_at,
        fired: false,
        hint,
        deliver,
        human,
        strict: STRICT.with(|c| c.get()),
        run_done: 0,
    });
    let r = match in_place {
        Some(mut place) => match T::deserialize_in_place(TokDe(&feed), &mut place) {
            Ok(()) => Ok(place),
            Err(e) => {
                // the value left behind must still be a well-formed object
                let any: &dyn std::any::Any = &place;
                let bad = if let Some(u) = any.downcast_ref::<BigUint>() {
                    noncanonical_u(u)
                } else if let Some(i) = any.downcast_ref::<BigInt>() {
                    noncanonical_i(i)
                } else {
                    None
                };
                PLACE_AFTER_ERR.with(|p| *p.borrow_mut() = bad);
                Err(e)
            }
        },
        None => T::deserialize(TokDe(&feed)),
    };
    (r, feed.into_inner())
}

fn hint_of(s: &Step) -> HintMode {
    match s.int("hint") {
        -1 => HintMode::NoneHint,
        -2 => HintMode::Exact,
        -3 => HintMode::Short,
        -4 => HintMode::Fixed(usize::MAX),
        -5 => HintMode::Fixed(1 << 40),
        -6 => HintMode::Minus(1),
        -7 => HintMode::Minus(2),
        -8 => HintMode::Minus(3),
        h => HintMode::Fixed(h.max(0) as usize),
    }
}

fn digit_toks(d: &[u64], wide_all: bool) -> Vec<Tok> {
    d.iter()
        .map(|&x| {
            if x > u32::MAX as u64 || wide_all {
                Tok::U64(x)
            } else {
                Tok::U32(x as u32)
            }
        })
        .collect()
}

// ---- generation ------------------------------------------------------------------------------------

fn gen_words(rng: &mut Prng, thorough: bool) -> Vec<u32> {
    let len = match rng.below(12) {
        0 => 0,
        1 => 1,
        2 => 2,
        3 => 3,
        4 if thorough => *rng.pick(&[2000u64, 3000, 262_143, 262_144, 262_145, 262_146, 300_001]),
        5 => rng.range(60, 140),
        6 if rng.chance(1, 3) => rng.range(1026, 2600),
        7 if rng.chance(1, 25) => *rng.pick(&[262_143u64, 262_144, 262_145, 262_150, 270_001]),
        _ => rng.range(1, 40),
    } as usize;
    let mut v = rng.digits32(len, true);
    // shape of the top native digit: zero or non-zero high half is decided by parity of len
    if rng.chance(1, 4) {
        // low zero words inside
        for x in v.iter_mut().take(len / 2) {
            *x = 0;
        }
        if let Some(t) = v.last_mut() {
            if *t == 0 {
                *t = 1;
            }
        }
    }
    v
}

fn gen_hint(rng: &mut Prng) -> i128 {
    if rng.chance(1, 5) {
        // lying hints near the truth and odd / even values around internal block sizes
        return *rng.pick(&[-6i128, -7, -8, 1, 2, 3, 7, 255, 257, 1023, 1024, 1025, 1027, 2049, 4097, 65_537, 262_143, 262_145, 262_144, 300_000, 1 << 20]);
    }
    match rng.below(8) {
        0 => -1,
        1 => 0,
        2 => -3,
        3 => -4,
        4 => rng.range(1, 5_000_000) as i128,
        5 => -5,
        _ => -2,
    }
}

pub fn gen(rng: &mut Prng, plan: &mut Plan) {
    let thorough = plan.tier == "thorough";
    plan.cfg = Step::new("cfg");
    if plan.index == 0 {
        // one exchange per batch with a value of 2^32 bits or more (half a gibibyte of digits): the element count
        // no longer fits the 32-bit quantities the digits themselves are made of
        let e = (1u64 << 32) - 1 + *rng.pick(&[0u64, 1, 32, 33, 64]);
        plan.steps.push(Step::new("giant").i("e", e as i128).i("low", rng.range(1, 1000) as i128).i("neg", rng.below(2) as i128).i("de", thorough as i128));
        return;
    }
    let n = rng.range(1, 6);
    for _ in 0..n {
        let huge = thorough && rng.chance(1, 30);
        let v = gen_words(rng, huge);
        let neg = rng.below(2) as i128;
        let s = match rng.below(12) {
            0 | 1 => Step::new("rt_u").l32("v", &v).i("route", rng.below(8) as i128).i("hint", gen_hint(rng))
                .i("deliver", rng.below(4) as i128).i("human", rng.below(2) as i128).i("inplace", rng.chance(1, 4) as i128).i("strict", rng.below(2) as i128),
            2 | 3 => Step::new("rt_i").l32("v", &v).i("neg", neg).i("route", rng.below(8) as i128).i("hint", gen_hint(rng))
                .i("deliver", rng.below(4) as i128).i("human", rng.below(2) as i128).i("inplace", rng.chance(1, 4) as i128).i("strict", rng.below(2) as i128),
            4 => {
                let at = rng.below(v.len() as u64 + 3) as i128;
                Step::new(if rng.chance(1, 2) { "serfail_u" } else { "serfail_i" })
                    .l32("v", &v)
                    .i("neg", neg)
                    .i("at", at)
            }
            5..=7 => {
                // arbitrary delivered digit list for BigUint
                let mut d: Vec<u64> = v.iter().map(|&x| x as u64).collect();
                match rng.below(8) {
                    0 => d.extend(std::iter::repeat(0).take(rng.range(1, 5) as usize)), // pad
                    1 => {
                        let k = rng.below(d.len() as u64 + 1) as usize;
                        d.truncate(d.len() - k)
                    }
                    2 => {
                        if !d.is_empty() {
                            let i = rng.below(d.len() as u64) as usize;
                            let x = d[i];
                            d.insert(i, x);
                        }
                    }
                    3 => {
                        for x in d.iter_mut() {
                            *x = 0;
                        }
                    }
                    4 => {
                        if !d.is_empty() {
                            let i = rng.below(d.len() as u64) as usize;
                            d[i] = (1u64 << 32) + rng.next_u32() as u64; // a u64-wide element
                        }
                    }
                    _ => {}
                }
                let mut s = Step::new("de_u").l("d", d.clone()).i("hint", gen_hint(rng)).i("deliver", rng.below(4) as i128).i("human", rng.below(2) as i128).i("inplace", rng.chance(1, 3) as i128).i("strict", rng.below(2) as i128);
                if rng.chance(1, 8) {
                    s = s.i("wide", 1);
                }
                if rng.chance(1, 8) {
                    s = s.i("eof", 1);
                }
                if rng.chance(1, 6) {
                    s = s.i("fail", 1 + rng.below(d.len() as u64 + 2) as i128);
                }
                if rng.chance(1, 25) {
                    s = s.i("wrongtype", 1);
                }
                s
            }
            8..=10 => {
                let mut d: Vec<u64> = v.iter().map(|&x| x as u64).collect();
                let mut sign: i128 = *rng.pick(&[-1i128, 0, 1, 1, -1]);
                match rng.below(8) {
                    0 => d.extend(std::iter::repeat(0).take(rng.range(1, 4) as usize)),
                    1 => d.clear(),
                    2 => {
                        for x in d.iter_mut() {
                            *x = 0;
                        }
                    }
                    3 => sign = *rng.pick(&[2i128, -2, 127, -128, 3, 64, 255, 256, -129, u64::MAX as i128, u64::MAX as i128 - 1, 1 << 63, i64::MIN as i128, i64::MAX as i128, u32::MAX as i128, 1 << 32]),
                    _ => {}
                }
                let mut s = Step::new("de_i").i("sign", sign).i("sk", rng.below(3) as i128).l("d", d.clone()).i("hint", gen_hint(rng)).i("deliver", rng.below(4) as i128).i("human", rng.below(2) as i128).i("inplace", rng.chance(1, 3) as i128).i("strict", rng.below(2) as i128);
                if rng.chance(1, 10) {
                    s = s.i("nofield", 1);
                }
                if rng.chance(1, 10) {
                    s = s.i("eof", 1);
                }
                if rng.chance(1, 6) {
                    s = s.i("fail", 1 + rng.below(d.len() as u64 + 4) as i128);
                }
                s
            }
            _ => {
                // several values back to back on one tape
                let v2 = gen_words(rng, false);
                Step::new("multi")
                    .l32("a", &v)
                    .l32("b", &v2)
                    .i("neg", neg)
                    .i("pad", rng.below(3) as i128)
                    .i("strict", rng.below(2) as i128)
                    .i("hint", gen_hint(rng))
            }
        };
        plan.steps.push(s);
    }
}

fn len_class(n: usize) -> u64 {
    match n {
        0 => 0,
        1 => 1,
        2 => 2,
        3..=8 => 3,
        9..=64 => 4,
        65..=200 => 5,
        _ => 6,
    }
}

pub fn exec(plan: &Plan) -> RunResult {
    let mut res = RunResult::default();
    let mut dg = Digest::new();
    for (si, s) in plan.steps.iter().enumerate() {
        at_step(si);
        res.steps += 1;
        let op = s.op.as_str();
        macro_rules! bad {
            ($oracle:expr, $api:expr, $($arg:tt)*) => {{
                res.violate(P, $oracle, $api, si, format!($($arg)*));
                res.digest = dg.0;
                return res;
            }};
        }
        // a failed deserialize_in_place of the previous exchange must have left a well-formed object behind
        if let Some(desc) = PLACE_AFTER_ERR.with(|p| p.borrow_mut().take()) {
            res.violate(P, "inplace-after-error", "deserialize_in_place", si.saturating_sub(1), format!("after an error the object deserialized into is malformed: {desc}"));
            res.digest = dg.0;
            return res;
        }
        STRICT.with(|c| c.set(s.int("strict") != 0));
        let hint = hint_of(s);
        let hint_kind = s.int("hint").min(1);
        match op {
            "rt_u" | "rt_i" => {
                let v = s.list32("v");
                let is_i = op == "rt_i";
                let neg = s.int("neg") != 0;
                // the string / arithmetic construction routes are quadratic: very long values are built directly
                let route = if s.list("v").len() > 3000 { 0 } else { s.int("route") };
                let human = s.int("human") != 0;
                let deliver = s.int("deliver") as u8;
                let in_place = s.int("inplace") != 0;
                let model_n = RefNat::from_u32s(&v);
                let model_i = RefInt::new(neg, model_n.clone());
                let api = if is_i { "BigInt" } else { "BigUint" };
                let out = catch(|| {
                    let u = build_u(&v, route);
                    if is_i {
                        let x = BigInt::from_biguint(if neg { Sign::Minus } else { Sign::Plus }, u);
                        let (r, toks, _) = ser_tokens_h(&x, None, human);
                        (r, toks)
                    } else {
                        let (r, toks, _) = ser_tokens_h(&u, None, human);
                        (r, toks)
                    }
                });
                let (r, toks) = match out {
                    Ok(t) => t,
                    Err(m) => bad!("panic", &format!("{api}::serialize"), "{m}"),
                };
                if let Err(e) = r {
                    bad!("ser-error", &format!("{api}::serialize"), "fault-free serializer got {e:?}");
                }
                let want = if is_i { model_tokens_i(&model_i) } else { model_tokens_u(&model_n) };
                // declared length None is tolerated; Some(n) must be the number of elements
                let norm = |t: &[Tok]| -> Vec<Tok> {
                    t.iter()
                        .map(|x| if let Tok::Seq(None) = x { Tok::Seq(Some(usize::MAX)) } else { x.clone() })
                        .collect()
                };
                let got_n = norm(&toks);
                let matches = got_n.len() == want.len()
                    && got_n.iter().zip(want.iter()).all(|(g, w)| {
                        g == w || (*g == Tok::Seq(Some(usize::MAX)) && matches!(w, Tok::Seq(_)))
                    });
                for t in &toks {
                    if let Tok::U32(w) = t {
                        dg.u64(*w as u64);
                    }
                }
                if !matches {
                    let show = |t: &[Tok]| format!("{:?}", &t[..t.len().min(14)]);
                    bad!(
                        "format",
                        &format!("{api}::serialize"),
                        "value {} (route {route}) serialized as {} ({} tokens), portable form is {} ({} tokens)",
                        model_n.to_hex(),
                        show(&toks),
                        toks.len(),
                        show(&want),
                        want.len()
                    );
                }
                // and back
                simalloc::track_max(true);
                let back = catch(|| {
                    if is_i {
                        let place = if in_place { Some(BigInt::new(Sign::Minus, vec![0xdead_beef; 9])) } else { None };
                        let (r, f) = de_tokens_with::<BigInt>(toks.clone(), hint, None, deliver, human, place);
                        (r.map(|x| (denote_i(&x), noncanonical_i(&x))), f.pos)
                    } else {
                        let place = if in_place { Some(BigUint::new(vec![0xdead_beef; 33])) } else { None };
                        let (r, f) = de_tokens_with::<BigUint>(toks.clone(), hint, None, deliver, human, place);
                        (r.map(|x| (RefInt::new(false, denote_u(&x)), noncanonical_u(&x))), f.pos)
                    }
                });
                let maxreq = simalloc::max_request();
                simalloc::track_max(false);
                let (r, pos) = match back {
                    Ok(t) => t,
                    Err(m) => bad!("panic", &format!("{api}::deserialize"), "hint {hint:?}: {m}"),
                };
                match r {
                    Err(e) => bad!("roundtrip", &format!("{api}::deserialize"), "own output rejected: {e:?} (hint {hint:?})"),
                    Ok((d, nc)) => {
                        if let Some(nc) = nc {
                            bad!("canonical", &format!("{api}::deserialize"), "{nc}");
                        }
                        let want_v = if is_i { model_i.clone() } else { RefInt::new(false, model_n.clone()) };
                        if d != want_v {
                            bad!("roundtrip", &format!("{api}::deserialize"), "deserialize(serialize(x)) = {} for x = {} (hint {hint:?})", d.to_dec(), want_v.to_dec());
                        }
                        if pos != toks.len() {
                            bad!("framing", &format!("{api}::deserialize"), "consumed {pos} of {} tokens", toks.len());
                        }
                    }
                }
                if maxreq > (256 << 20) {
                    bad!("prealloc", &format!("{api}::deserialize"), "single allocation of {maxreq} bytes for {} digits with hint {hint:?}", v.len());
                }
                if hint != HintMode::Exact {
                    res.fault("de.hint");
                }
                let top_hi_zero = model_n.0.len() % 2 == 1;
                res.nontrivial = true;
                res.cover.insert(fnv(
                    format!("{op}|{}|{top_hi_zero}|r{route}|h{hint_kind}", len_class(model_n.0.len())).as_bytes(),
                ));
            }
            "serfail_u" | "serfail_i" => {
                let v = s.list32("v");
                let is_i = op == "serfail_i";
                let neg = s.int("neg") != 0;
                let at = s.us("at");
                let api = if is_i { "BigInt::serialize" } else { "BigUint::serialize" };
                let out = catch(|| {
                    let u = BigUint::new(v.clone());
                    if is_i {
                        let x = BigInt::from_biguint(if neg { Sign::Minus } else { Sign::Plus }, u);
                        (ser_tokens(&x, None), ser_tokens(&x, Some(at)))
                    } else {
                        (ser_tokens(&u, None), ser_tokens(&u, Some(at)))
                    }
                });
                let ((_, full, _), (r, part, fired)) = match out {
                    Ok(t) => t,
                    Err(m) => bad!("panic", api, "serializer error at token {at}: {m}"),
                };
                if fired {
                    res.fault("ser.fail");
                    if r != Err(SimErr::Injected(at)) {
                        bad!("error-propagation", api, "serializer failed at token {at} but serialize returned {r:?}");
                    }
                    if part.len() > full.len() || part[..] != full[..part.len()] {
                        bad!("error-propagation", api, "tokens before the fault are not a prefix of the fault-free stream");
                    }
                    res.nontrivial = true;
                    let cls = if at == 0 { 0 } else if at + 1 >= full.len() { 2 } else { 1 };
                    res.cover.insert(fnv(format!("{op}|{}|{cls}", len_class(v.len())).as_bytes()));
                } else if r.is_err() {
                    bad!("ser-error", api, "no fault fired but serialize returned {r:?}");
                }
                dg.u64(part.len() as u64);
            }
            "de_u" => {
                let d = s.list("d").to_vec();
                let wide = s.int("wide") != 0;
                let eof = s.int("eof") != 0;
                let fail = if s.has("fail") { Some(s.us("fail")) } else { None };
                let mut toks = vec![Tok::Seq(Some(d.len()))];
                toks.extend(digit_toks(&d, wide));
                if !eof {
                    toks.push(Tok::End);
                }
                let wrongtype = s.int("wrongtype") != 0;
                if wrongtype {
                    // the peer sends a bare number where a sequence is expected
                    toks = vec![Tok::U32(d.first().copied().unwrap_or(7) as u32)];
                }
                let ntoks = toks.len();
                simalloc::track_max(true);
                let deliver = s.int("deliver") as u8;
                let human = s.int("human") != 0;
                let in_place = s.int("inplace") != 0;
                let out = catch(|| {
                    let place = if in_place { Some(BigUint::new(vec![0xdead_beef; 21])) } else { None };
                    let (r, f) = de_tokens_with::<BigUint>(toks, hint, fail, deliver, human, place);
                    (r.map(|x| (denote_u(&x), noncanonical_u(&x))), f.fired, f.pos)
                });
                let maxreq = simalloc::max_request();
                simalloc::track_max(false);
                let (r, fired, pos) = match out {
                    Ok(t) => t,
                    Err(m) => bad!("panic", "BigUint::deserialize", "digits {d:x?} hint {hint:?} eof {eof} fail {fail:?}: {m}"),
                };
                let too_wide = d.iter().any(|&x| x > u32::MAX as u64);
                let must_err = too_wide || eof || fired || wrongtype;
                let fault = if wrongtype { "de.wrong_type" } else if fired { "de.fail" } else if eof { "de.truncate_stream" } else if too_wide { "de.wide" } else if d.last() == Some(&0) { "de.pad" } else { "" };
                if !fault.is_empty() {
                    res.fault(match fault {
                        "de.wrong_type" => "de.wrong_type",
                        "de.fail" => "de.fail",
                        "de.truncate_stream" => "de.eof",
                        "de.wide" => "de.wide",
                        _ => "de.pad",
                    });
                }
                match r {
                    Err(e) => {
                        if !must_err {
                            bad!("reject-valid", "BigUint::deserialize", "digits {d:x?} (hint {hint:?}) rejected: {e:?}");
                        }
                        if fired && !wrongtype && e != SimErr::Injected(fail.unwrap()) {
                            bad!("error-propagation", "BigUint::deserialize", "injected error replaced by {e:?}");
                        }
                        dg.u64(0xe);
                    }
                    Ok((v, nc)) => {
                        if must_err {
                            bad!("accept-invalid", "BigUint::deserialize", "digits {d:x?} eof={eof} fired={fired}: returned {}", v.to_hex());
                        }
                        if let Some(nc) = nc {
                            bad!("canonical", "BigUint::deserialize", "digits {d:x?}: {nc}");
                        }
                        let want: Vec<u32> = d.iter().map(|&x| x as u32).collect();
                        if v != RefNat::from_u32s(&want) {
                            bad!("denotation", "BigUint::deserialize", "digits {d:x?} (hint {hint:?}) gave {}", v.to_hex());
                        }
                        if pos != ntoks {
                            bad!("framing", "BigUint::deserialize", "consumed {pos} of {ntoks} tokens");
                        }
                        dg.u32s(&v.0);
                    }
                }
                if maxreq > (256 << 20) {
                    bad!("prealloc", "BigUint::deserialize", "single allocation of {maxreq} bytes for {} digits with hint {hint:?}", d.len());
                }
                if hint != HintMode::Exact {
                    res.fault("de.hint");
                }
                res.nontrivial = true;
                res.cover.insert(fnv(
                    format!("de_u|{}|{}|{fault}|h{hint_kind}|w{wide}", len_class(d.len()), d.len() % 2).as_bytes(),
                ));
            }
            "de_i" => {
                let d = s.list("d").to_vec();
                let sign = s.int("sign");
                let eof = s.int("eof") != 0;
                let nofield = s.int("nofield") != 0;
                let fail = if s.has("fail") { Some(s.us("fail")) } else { None };
                let mut toks = vec![Tok::Tuple(2)];
                // the sign may arrive in any integer width the format likes
                match s.int("sk") {
                    1 if sign >= 0 => toks.push(Tok::U64(sign as u64)),
                    2 if sign >= i64::MIN as i128 && sign <= i64::MAX as i128 => toks.push(Tok::I64(sign as i64)),
                    _ => {
                        if (-128..=127).contains(&sign) {
                            toks.push(Tok::I8(sign as i8));
                        } else if sign > i64::MAX as i128 {
                            toks.push(Tok::U64(sign as u64));
                        } else {
                            toks.push(Tok::I64(sign as i64));
                        }
                    }
                }
                if !nofield {
                    toks.push(Tok::Seq(Some(d.len())));
                    toks.extend(digit_toks(&d, false));
                    toks.push(Tok::End);
                }
                if !eof {
                    toks.push(Tok::End);
                }
                let ntoks = toks.len();
                let deliver = s.int("deliver") as u8;
                let human = s.int("human") != 0;
                let in_place = s.int("inplace") != 0;
                let out = catch(|| {
                    let place = if in_place { Some(BigInt::new(Sign::Minus, vec![0xdead_beef; 5])) } else { None };
                    let (r, f) = de_tokens_with::<BigInt>(toks, hint, fail, deliver, human, place);
                    (r.map(|x| (denote_i(&x), noncanonical_i(&x))), f.fired, f.pos)
                });
                let (r, fired, pos) = match out {
                    Ok(t) => t,
                    Err(m) => bad!("panic", "BigInt::deserialize", "sign {sign} digits {d:x?} hint {hint:?}: {m}"),
                };
                let too_wide = d.iter().any(|&x| x > u32::MAX as u64);
                let bad_sign = !(-1..=1).contains(&sign);
                let must_err = bad_sign || nofield || fired || too_wide;
                // eof (outer End missing) after both fields were delivered: a visitor may or may not notice
                let may_err = eof;
                let fault = if fired { "de.fail" } else if bad_sign { "de.sign_invalid" } else if nofield { "de.missing_field" } else if eof { "de.eof" } else { "" };
                let mags_zero = d.iter().all(|&x| x == 0);
                let mismatch = !bad_sign && ((sign == 0 && !mags_zero) || (sign != 0 && mags_zero));
                if fired {
                    res.fault("de.fail");
                } else if bad_sign {
                    res.fault("de.sign_invalid");
                } else if nofield {
                    res.fault("de.missing_field");
                } else if eof {
                    res.fault("de.eof");
                } else if mismatch {
                    res.fault("de.sign_mismatch");
                }
                match r {
                    Err(e) => {
                        if !must_err && !may_err {
                            bad!("reject-valid", "BigInt::deserialize", "(sign {sign}, digits {d:x?}) rejected: {e:?}");
                        }
                        if fired && e != SimErr::Injected(fail.unwrap()) {
                            bad!("error-propagation", "BigInt::deserialize", "injected error replaced by {e:?}");
                        }
                        dg.u64(0xe);
                    }
                    Ok((v, nc)) => {
                        if must_err {
                            bad!("accept-invalid", "BigInt::deserialize", "(sign {sign}, digits {d:x?}) nofield={nofield} fired={fired}: returned {}", v.to_dec());
                        }
                        if let Some(nc) = nc {
                            bad!("canonical", "BigInt::deserialize", "(sign {sign}, digits {d:x?}): {nc}");
                        }
                        let want32: Vec<u32> = d.iter().map(|&x| x as u32).collect();
                        let want = if sign == 0 {
                            RefInt::new(false, RefNat::zero())
                        } else {
                            RefInt::new(sign < 0, RefNat::from_u32s(&want32))
                        };
                        if v != want {
                            bad!("denotation", "BigInt::deserialize", "(sign {sign}, digits {d:x?}) gave {} want {}", v.to_dec(), want.to_dec());
                        }
                        if !eof && pos != ntoks {
                            bad!("framing", "BigInt::deserialize", "consumed {pos} of {ntoks} tokens");
                        }
                        dg.u32s(&v.mag.0);
                        dg.u64(v.neg as u64);
                    }
                }
                res.nontrivial = true;
                res.cover.insert(fnv(
                    format!("de_i|{}|{}|s{}|{fault}|m{mismatch}|h{hint_kind}", len_class(d.len()), d.len() % 2, sign.clamp(-2, 2)).as_bytes(),
                ));
            }
            "giant" => {
                let e = s.u64("e");
                let low = s.u64("low") as u32;
                let neg = s.int("neg") != 0;
                if e < 64 || low == 0 {
                    // outside what the oracle below describes (the two non-zero digits would merge or vanish)
                    continue;
                }
                let words = e / 32 + 1; // u32 digits of 2^e + low
                let top = 1u32 << (e % 32);
                let mut want = vec![Tok::Tuple(2), Tok::I8(if neg { -1 } else { 1 }), Tok::Seq(Some(words as usize)), Tok::U32(low), Tok::U32(top), Tok::End, Tok::End];
                let want_before = vec![0, 0, 0, 0, words - 2, words - 2, words - 2];
                let out = catch(|| {
                    let u = (BigUint::from(1u8) << e) + low;
                    let x = BigInt::from_biguint(if neg { Sign::Minus } else { Sign::Plus }, u);
                    let tape = RefCell::new(Tape { toks: vec![], fail_at: None, fired: false, human: false, fold: true, zeros: 0, zeros_before: vec![] });
                    let r = x.serialize(TokSer(&tape));
                    (r, tape.into_inner())
                });
                let (r, tape) = match out {
                    Ok(t) => t,
                    Err(m) => bad!("panic", "BigInt::serialize", "value 2^{e} + {low}: {m}"),
                };
                if let Err(e2) = r {
                    bad!("ser-error", "BigInt::serialize", "value 2^{e} + {low}: {e2}");
                }
                if tape.toks != want || tape.zeros_before != want_before {
                    bad!("ser-model", "BigInt::serialize", "value {}(2^{e} + {low}): non-zero tokens {:?} with {:?} zero digits before each; want {:?} with {:?}", if neg { "-" } else { "" }, &tape.toks[..tape.toks.len().min(12)], &tape.zeros_before[..tape.zeros_before.len().min(12)], want, want_before);
                }
                dg.u64(tape.zeros);
                res.fault("size.giant");
                if s.int("de") != 0 {
                    want.insert(5, Tok::ZeroRun(words - 2));
                    want.swap(4, 5);
                    let out = catch(|| {
                        let (r, feed) = de_tokens_with::<BigInt>(want.clone(), HintMode::NoneHint, None, 0, false, None);
                        r.map(|x| (x.sign(), x.bits(), x.magnitude().trailing_zeros(), x.magnitude().count_ones(), (x.magnitude() % 4096u32).to_u32_digits(), feed.reads))
                    });
                    match out {
                        Err(m) => bad!("panic", "BigInt::deserialize", "value 2^{e} + {low}: {m}"),
                        Ok(Err(e2)) => bad!("de-error", "BigInt::deserialize", "value 2^{e} + {low}: {e2}"),
                        Ok(Ok((sg, bits, tz, ones, lowd, _reads))) => {
                            let ok = sg == (if neg { Sign::Minus } else { Sign::Plus })
                                && bits == e + 1
                                && tz == Some(low.trailing_zeros() as u64)
                                && ones == 1 + low.count_ones() as u64
                                && lowd == vec![low];
                            if !ok {
                                bad!("roundtrip", "BigInt::deserialize", "value 2^{e} + {low}: got sign {sg:?}, {bits} bits, {ones} one bits, low digits {lowd:?}");
                            }
                            dg.u64(bits);
                        }
                    }
                }
                res.nontrivial = true;
                res.cover.insert(fnv(format!("giant|{}|{neg}", e % 64).as_bytes()));
            }
            "multi" => {
                let a = s.list32("a");
                let b = s.list32("b");
                let neg = s.int("neg") != 0;
                let pad = s.us("pad");
                let out = catch(|| {
                    let ua = BigUint::new(a.clone());
                    let ib = BigInt::from_biguint(if neg { Sign::Minus } else { Sign::Plus }, BigUint::new(b.clone()));
                    let triple = (ua.clone(), ib.clone(), ua.clone());
                    let (r, mut toks, _) = ser_tokens(&triple, None);
                    // transport: pad the first value's digit list with zero words (legal redundancy)
                    if pad > 0 {
                        if let Some(end) = toks.iter().position(|t| *t == Tok::End) {
                            for _ in 0..pad {
                                toks.insert(end, Tok::U32(0));
                            }
                            if let Tok::Seq(Some(n)) = toks[1].clone() {
                                toks[1] = Tok::Seq(Some(n + pad));
                            }
                        }
                    }
                    let n = toks.len();
                    let (back, f) = de_tokens::<(BigUint, BigInt, BigUint)>(toks, hint, None);
                    (r, back.map(|(x, y, z)| (denote_u(&x), denote_i(&y), denote_u(&z), noncanonical_u(&x).or(noncanonical_i(&y)).or(noncanonical_u(&z)))), f.pos, n)
                });
                let (r, back, pos, n) = match out {
                    Ok(t) => t,
                    Err(m) => bad!("panic", "tuple-of-values", "{m}"),
                };
                if let Err(e) = r {
                    bad!("ser-error", "tuple-of-values", "{e:?}");
                }
                match back {
                    Err(e) => bad!("roundtrip", "tuple-of-values", "values back to back on one tape rejected: {e:?} (hint {hint:?}, pad {pad})"),
                    Ok((x, y, z, nc)) => {
                        if let Some(nc) = nc {
                            bad!("canonical", "tuple-of-values", "{nc}");
                        }
                        let ma = RefNat::from_u32s(&a);
                        let mb = RefInt::new(neg, RefNat::from_u32s(&b));
                        if x != ma || z != ma || y != mb {
                            bad!("roundtrip", "tuple-of-values", "sequence boundaries not respected: got ({}, {}, {}) want ({}, {}, {})", x.to_hex(), y.to_dec(), z.to_hex(), ma.to_hex(), mb.to_dec(), ma.to_hex());
                        }
                        if pos != n {
                            bad!("framing", "tuple-of-values", "consumed {pos} of {n} tokens");
                        }
                        dg.u32s(&x.0);
                        dg.u32s(&y.mag.0);
                    }
                }
                if pad > 0 {
                    res.fault("de.pad");
                }
                res.nontrivial = true;
                res.cover.insert(fnv(format!("multi|{}|{}|{pad}|h{hint_kind}", len_class(a.len()), len_class(b.len())).as_bytes()));
            }
            other => {
                res.violate(P, "harness", other, si, "unknown op".into());
                return res;
            }
        }
    }
    if let Some(desc) = PLACE_AFTER_ERR.with(|p| p.borrow_mut().take()) {
        res.violate(P, "inplace-after-error", "deserialize_in_place", plan.steps.len().saturating_sub(1), format!("after an error the object deserialized into is malformed: {desc}"));
    }
    STRICT.with(|c| c.set(false));
    res.digest = dg.0;
    res
}
