//! nbsim — deterministic simulation harness for num-bigint.
//!
//!   nbsim run    --scenario S --seed N --tier T --start I --count K [--stride M] [--digests]
//!   nbsim gen    --scenario S --seed N --tier T --index I
//!   nbsim replay FILE
//!   nbsim list

mod hist;
mod histgen;
mod obs;
mod plan;
mod prng;
mod refnat;
mod regs;
mod scn_c09bytes;
mod scn_c09iter;
mod scn_c11;
#[cfg(feature = "opt")]
mod scn_c17;
#[cfg(feature = "opt")]
mod scn_c18;
mod scn_hist;
#[cfg(feature = "opt")]
mod seams;
mod simalloc;
mod sup;

use plan::{json_str, Plan};
use prng::Prng;
use std::collections::{BTreeMap, BTreeSet};
use std::io::Write;
use std::sync::atomic::Ordering;
use sup::RunResult;

#[global_allocator]
static GLOBAL: simalloc::SimAlloc = simalloc::SimAlloc;

pub struct Scenario {
    pub name: &'static str,
    pub property: &'static str,
    pub gen: fn(&mut Prng, &mut Plan),
    pub exec: fn(&Plan) -> RunResult,
}

pub static SCENARIOS: &[Scenario] = &[
    Scenario {
        name: "c09iter",
        property: "C09",
        gen: scn_c09iter::gen,
        exec: scn_c09iter::exec,
    },
    Scenario { name: "c09bytes", property: "C09", gen: scn_c09bytes::gen, exec: scn_c09bytes::exec },
    Scenario { name: "c11", property: "C11", gen: scn_c11::gen, exec: scn_c11::exec },
    Scenario { name: "c04", property: "C04", gen: scn_hist::gen_c04, exec: scn_hist::exec_c04 },
    Scenario { name: "c14h", property: "C14", gen: scn_hist::gen_c14h, exec: scn_hist::exec_c14h },
    Scenario { name: "c14f", property: "C14", gen: scn_hist::gen_c14f, exec: scn_hist::exec_c14f },
    Scenario { name: "c15", property: "C15", gen: scn_hist::gen_c15, exec: scn_hist::exec_c15 },
    #[cfg(feature = "opt")]
    Scenario { name: "c15rand", property: "C15", gen: scn_hist::gen_c15rand, exec: scn_hist::exec_c15rand },
    #[cfg(feature = "opt")]
    Scenario { name: "c15c18", property: "C15", gen: scn_hist::gen_c15c18, exec: scn_hist::exec_c15c18 },
    Scenario { name: "c16", property: "C16", gen: scn_hist::gen_c16, exec: scn_hist::exec_c16 },
    #[cfg(feature = "opt")]
    Scenario {
        name: "c17",
        property: "C17",
        gen: scn_c17::gen,
        exec: scn_c17::exec,
    },
    #[cfg(feature = "opt")]
    Scenario { name: "c17h", property: "C17", gen: scn_hist::gen_c04, exec: scn_hist::exec_c17h },
    #[cfg(feature = "opt")]
    Scenario { name: "c18long", property: "C18", gen: scn_c18::gen_long, exec: scn_c18::exec },
    #[cfg(feature = "opt")]
    Scenario {
        name: "c18",
        property: "C18",
        gen: scn_c18::gen,
        exec: scn_c18::exec,
    },
];

fn find(name: &str) -> &'static Scenario {
    SCENARIOS
        .iter()
        .find(|s| s.name == name)
        .unwrap_or_else(|| die(&format!("unknown scenario {name}")))
}

fn die(msg: &str) -> ! {
    eprintln!("nbsim: {msg}");
    std::process::exit(2)
}

pub fn make_plan(sc: &Scenario, seed: u64, index: u64, tier: &str) -> Plan {
    let mut rng = Prng::for_run(seed, sc.name, index);
    let mut plan = Plan::new(sc.name, seed, index, tier);
    (sc.gen)(&mut rng, &mut plan);
    plan
}

fn probes_json() -> String {
    let mut o = String::from("{");
    for i in 0..num_bigint::__verif::N_PROBES {
        if i > 0 {
            o.push(',');
        }
        o.push_str(&format!(
            "{}:{}",
            json_str(num_bigint::__verif::PROBE_NAMES[i]),
            num_bigint::__verif::read(i)
        ));
    }
    o.push('}');
    o
}

fn map_json(m: &BTreeMap<&'static str, u64>) -> String {
    let mut o = String::from("{");
    for (n, (k, v)) in m.iter().enumerate() {
        if n > 0 {
            o.push(',');
        }
        o.push_str(&format!("{}:{}", json_str(k), v));
    }
    o.push('}');
    o
}

fn opt<'a>(args: &'a [String], name: &str) -> Option<&'a str> {
    args.iter()
        .position(|a| a == name)
        .and_then(|i| args.get(i + 1))
        .map(|s| s.as_str())
}

fn main() {
    let args: Vec<String> = std::env::args().collect();
    if args.len() < 2 {
        die("usage: nbsim run|gen|replay|list ...");
    }
    sup::install_panic_hook();
    sup::install_signal_handlers();
    sup::limit_memory(
        std::env::var("NBSIM_MEM_LIMIT_MB")
            .ok()
            .and_then(|s| s.parse::<u64>().ok())
            .unwrap_or(3072)
            << 20,
    );
    let out = std::io::stdout();
    match args[1].as_str() {
        "list" => {
            for s in SCENARIOS {
                println!("{} {}", s.name, s.property);
            }
        }
        "merge-cover" => {
            // union of the 8-byte cover hashes written by workers; prints the number of distinct ones
            let mut all: Vec<u64> = Vec::new();
            for path in &args[2..] {
                if let Ok(bytes) = std::fs::read(path) {
                    all.extend(bytes.chunks_exact(8).map(|c| u64::from_le_bytes(c.try_into().unwrap())));
                }
            }
            all.sort_unstable();
            all.dedup();
            println!("{}", all.len());
        }
        "gen" => {
            let sc = find(opt(&args, "--scenario").unwrap_or_else(|| die("--scenario")));
            let seed: u64 = opt(&args, "--seed").unwrap_or("0").parse().unwrap();
            let index: u64 = opt(&args, "--index").unwrap_or("0").parse().unwrap();
            let tier = opt(&args, "--tier").unwrap_or("quick");
            print!("{}", make_plan(sc, seed, index, tier).render());
        }
        "replay" => {
            let path = args.get(2).unwrap_or_else(|| die("replay FILE"));
            let text = std::fs::read_to_string(path).unwrap_or_else(|e| die(&format!("{path}: {e}")));
            let plan = Plan::parse(&text).unwrap_or_else(|e| die(&format!("{path}: {e}")));
            let sc = find(&plan.scenario);
            sup::CUR_RUN.store(plan.index, Ordering::Relaxed);
            sup::arm_watchdog(watchdog_secs());
            let res = (sc.exec)(&plan);
            sup::arm_watchdog(0);
            let mut o = out.lock();
            for v in &res.violations {
                let _ = writeln!(o, "V {{\"index\":{},\"violation\":{}}}", plan.index, v.json());
            }
            let _ = writeln!(
                o,
                "R {{\"digest\":\"{:016x}\",\"steps\":{},\"violations\":{},\"faults\":{},\"reach\":{}}}",
                res.digest,
                res.steps,
                res.violations.len(),
                map_json(&res.faults),
                map_json(&res.reach)
            );
            std::process::exit(if res.violations.is_empty() { 0 } else { 1 });
        }
        "run" => {
            let sc = find(opt(&args, "--scenario").unwrap_or_else(|| die("--scenario")));
            let seed: u64 = opt(&args, "--seed").unwrap_or("0").parse().unwrap();
            let tier = opt(&args, "--tier").unwrap_or("quick").to_string();
            let start: u64 = opt(&args, "--start").unwrap_or("0").parse().unwrap();
            let count: u64 = opt(&args, "--count").unwrap_or("1000").parse().unwrap();
            let stride: u64 = opt(&args, "--stride").unwrap_or("1").parse().unwrap();
            let digests = args.iter().any(|a| a == "--digests");
            let nsamples: u64 = opt(&args, "--samples").unwrap_or("2").parse().unwrap();
            run_batch(sc, seed, &tier, start, count, stride, digests, nsamples, opt(&args, "--cover-out"));
        }
        other => die(&format!("unknown command {other}")),
    }
}

fn watchdog_secs() -> u32 {
    sup::watchdog_secs()
}

#[allow(clippy::too_many_arguments)]
fn run_batch(
    sc: &Scenario,
    seed: u64,
    tier: &str,
    start: u64,
    count: u64,
    stride: u64,
    digests: bool,
    nsamples: u64,
    cover_out: Option<&str>,
) {
    let out = std::io::stdout();
    let wd = watchdog_secs();
    let mut faults: BTreeMap<&'static str, u64> = BTreeMap::new();
    let mut reach: BTreeMap<&'static str, u64> = BTreeMap::new();
    let mut cover: BTreeSet<u64> = BTreeSet::new();
    let mut runs = 0u64;
    let mut steps = 0u64;
    let mut nontrivial = 0u64;
    let mut violations = 0u64;
    let mut xor_digest = 0u64;
    let mut samples: Vec<String> = Vec::new();
    let t0 = std::time::Instant::now();
    let mut idx = start;
    for n in 0..count {
        let plan = make_plan(sc, seed, idx, tier);
        sup::CUR_RUN.store(idx, Ordering::Relaxed);
        sup::CUR_STEP.store(0, Ordering::Relaxed);
        {
            // progress marker so that the driver knows where a killed worker was
            let mut o = out.lock();
            if n % 4096 == 0 {
                let _ = writeln!(o, "P {idx}");
                let _ = o.flush();
            }
        }
        sup::arm_watchdog(wd);
        let res = (sc.exec)(&plan);
        sup::arm_watchdog(0);
        runs += 1;
        steps += res.steps;
        xor_digest ^= prng::mix(&[idx, res.digest]);
        for (k, v) in &res.faults {
            *faults.entry(k).or_insert(0) += v;
        }
        for (k, v) in &res.reach {
            *reach.entry(k).or_insert(0) += v;
        }
        if res.nontrivial {
            nontrivial += 1;
            if (samples.len() as u64) < nsamples {
                samples.push(plan.render());
            }
        }
        cover.extend(res.cover.iter().copied());
        if digests {
            let mut o = out.lock();
            let _ = writeln!(o, "D {} {:016x} {:016x}", idx, plan.hash(), res.digest);
        }
        if !res.violations.is_empty() {
            violations += 1;
            if violations <= 25 {
                let mut o = out.lock();
                let _ = writeln!(
                    o,
                    "V {{\"index\":{},\"violation\":{},\"plan\":{}}}",
                    idx,
                    res.violations[0].json(),
                    json_str(&plan.render())
                );
                let _ = o.flush();
            }
        }
        idx += stride;
    }
    let wall = t0.elapsed().as_secs_f64();
    let mut o = out.lock();
    if let Some(path) = cover_out {
        let mut bytes = Vec::with_capacity(cover.len() * 8);
        for h in &cover {
            bytes.extend_from_slice(&h.to_le_bytes());
        }
        if let Err(e) = std::fs::write(path, &bytes) {
            die(&format!("{path}: {e}"));
        }
    }
    let sample_list: Vec<String> = samples.iter().map(|s| json_str(s)).collect();
    let _ = writeln!(
        o,
        "S {{\"scenario\":{},\"property\":{},\"runs\":{},\"steps\":{},\"nontrivial_runs\":{},\"violating_runs\":{},\"xor_digest\":\"{:016x}\",\"wall_s\":{:.3},\"faults\":{},\"reach\":{},\"probes\":{},\"cover_count\":{},\"samples\":[{}]}}",
        json_str(sc.name),
        json_str(sc.property),
        runs,
        steps,
        nontrivial,
        violations,
        xor_digest,
        wall,
        map_json(&faults),
        map_json(&reach),
        probes_json(),
        cover.len(),
        sample_list.join(",")
    );
    let _ = o.flush();
}
