//! Observation channel: what a library object denotes, read through the most primitive export.

use crate::refnat::{RefInt, RefNat};
use num_bigint::{BigInt, BigUint, Sign};

/// Native digits exactly as stored (trailing zero digits stay visible).
pub fn raw64(x: &BigUint) -> Vec<u64> {
    x.iter_u64_digits().collect()
}

pub fn denote_u(x: &BigUint) -> RefNat {
    RefNat::from_u64s(&raw64(x))
}

pub fn denote_i(x: &BigInt) -> RefInt {
    RefInt::new(x.sign() == Sign::Minus, denote_u(x.magnitude()))
}

/// None if canonical, else a description.
pub fn noncanonical_u(x: &BigUint) -> Option<String> {
    let r = raw64(x);
    if r.last() == Some(&0) {
        Some(format!("high zero digit stored: raw digits {:x?}", r))
    } else {
        None
    }
}

pub fn noncanonical_i(x: &BigInt) -> Option<String> {
    if let Some(d) = noncanonical_u(x.magnitude()) {
        return Some(d);
    }
    let empty = raw64(x.magnitude()).is_empty();
    match (x.sign(), empty) {
        (Sign::NoSign, false) => Some("sign is NoSign but magnitude is non-zero".into()),
        (Sign::Plus, true) => Some("sign is Plus but magnitude is zero".into()),
        (Sign::Minus, true) => Some("sign is Minus but magnitude is zero".into()),
        _ => None,
    }
}

pub fn u_from_ref(n: &RefNat) -> BigUint {
    BigUint::new(n.0.clone())
}

pub fn i_from_ref(n: &RefInt) -> BigInt {
    let s = if n.mag.is_zero() {
        Sign::NoSign
    } else if n.neg {
        Sign::Minus
    } else {
        Sign::Plus
    };
    BigInt::from_biguint(s, u_from_ref(&n.mag))
}

/// Build the same value by different routes so that buffers carry different capacity / slack.
pub fn build_u(words: &[u32], route: i128) -> BigUint {
    let base = BigUint::new(words.to_vec());
    match route {
        1 => BigUint::from_slice(words),
        2 => (base << 192u32) >> 192u32,
        3 => {
            let big = BigUint::new(vec![0xffff_ffff; words.len() + 9]);
            (base + &big) - &big
        }
        4 => base.to_string().parse().unwrap(),
        5 => {
            let mut t = BigUint::new(vec![7; words.len() * 4 + 40]);
            t.clone_from(&base);
            t
        }
        6 => {
            let mut w = words.to_vec();
            w.extend_from_slice(&[0, 0, 0]);
            BigUint::new(w)
        }
        7 => {
            let mut t = BigUint::new(vec![1; 70]);
            t.assign_from_slice(words);
            t
        }
        _ => base,
    }
}
