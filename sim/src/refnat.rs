//! Reference natural numbers / integers: small, schoolbook, independent of the library.
//! Little-endian base-2^32 digits, always without high zero digits.

use std::cmp::Ordering;

#[derive(Clone, Debug, PartialEq, Eq, Hash)]
pub struct RefNat(pub Vec<u32>);

fn trim(mut v: Vec<u32>) -> Vec<u32> {
    while let Some(&0) = v.last() {
        v.pop();
    }
    v
}

impl RefNat {
    pub fn zero() -> RefNat {
        RefNat(vec![])
    }
    pub fn one() -> RefNat {
        RefNat(vec![1])
    }
    pub fn from_u32s(v: &[u32]) -> RefNat {
        RefNat(trim(v.to_vec()))
    }
    pub fn from_u64s(v: &[u64]) -> RefNat {
        let mut o = Vec::with_capacity(v.len() * 2);
        for &x in v {
            o.push(x as u32);
            o.push((x >> 32) as u32);
        }
        RefNat(trim(o))
    }
    pub fn from_u128(x: u128) -> RefNat {
        RefNat(trim(vec![
            x as u32,
            (x >> 32) as u32,
            (x >> 64) as u32,
            (x >> 96) as u32,
        ]))
    }
    pub fn from_bytes_le(b: &[u8]) -> RefNat {
        let mut o = vec![0u32; (b.len() + 3) / 4];
        for (i, &x) in b.iter().enumerate() {
            o[i / 4] |= (x as u32) << (8 * (i % 4));
        }
        RefNat(trim(o))
    }
    /// Minimal little-endian bytes; zero -> [0].
    pub fn to_bytes_le(&self) -> Vec<u8> {
        let mut o = Vec::with_capacity(self.0.len() * 4);
        for &w in &self.0 {
            o.extend_from_slice(&w.to_le_bytes());
        }
        while o.len() > 1 && *o.last().unwrap() == 0 {
            o.pop();
        }
        if o.is_empty() {
            o.push(0);
        }
        o
    }
    pub fn to_u64s(&self) -> Vec<u64> {
        self.0
            .chunks(2)
            .map(|c| c[0] as u64 | (c.get(1).copied().unwrap_or(0) as u64) << 32)
            .collect()
    }
    pub fn is_zero(&self) -> bool {
        self.0.is_empty()
    }
    pub fn bits(&self) -> u64 {
        match self.0.last() {
            None => 0,
            Some(&t) => self.0.len() as u64 * 32 - t.leading_zeros() as u64,
        }
    }
    pub fn to_u128(&self) -> Option<u128> {
        if self.0.len() > 4 {
            return None;
        }
        let mut x = 0u128;
        for (i, &w) in self.0.iter().enumerate() {
            x |= (w as u128) << (32 * i);
        }
        Some(x)
    }
    pub fn cmp(&self, o: &RefNat) -> Ordering {
        if self.0.len() != o.0.len() {
            return self.0.len().cmp(&o.0.len());
        }
        for i in (0..self.0.len()).rev() {
            if self.0[i] != o.0[i] {
                return self.0[i].cmp(&o.0[i]);
            }
        }
        Ordering::Equal
    }
    pub fn add(&self, o: &RefNat) -> RefNat {
        let n = self.0.len().max(o.0.len());
        let mut r = Vec::with_capacity(n + 1);
        let mut c = 0u64;
        for i in 0..n {
            let s = *self.0.get(i).unwrap_or(&0) as u64 + *o.0.get(i).unwrap_or(&0) as u64 + c;
            r.push(s as u32);
            c = s >> 32;
        }
        if c > 0 {
            r.push(c as u32);
        }
        RefNat(r)
    }
    /// self - o, None if negative.
    pub fn sub(&self, o: &RefNat) -> Option<RefNat> {
        if self.cmp(o) == Ordering::Less {
            return None;
        }
        let mut r = Vec::with_capacity(self.0.len());
        let mut b = 0i64;
        for i in 0..self.0.len() {
            let mut d = self.0[i] as i64 - *o.0.get(i).unwrap_or(&0) as i64 - b;
            if d < 0 {
                d += 1 << 32;
                b = 1;
            } else {
                b = 0;
            }
            r.push(d as u32);
        }
        Some(RefNat(trim(r)))
    }
    pub fn mul(&self, o: &RefNat) -> RefNat {
        if self.is_zero() || o.is_zero() {
            return RefNat::zero();
        }
        let mut r = vec![0u32; self.0.len() + o.0.len()];
        for (i, &a) in self.0.iter().enumerate() {
            let mut c = 0u64;
            for (j, &b) in o.0.iter().enumerate() {
                let t = a as u64 * b as u64 + r[i + j] as u64 + c;
                r[i + j] = t as u32;
                c = t >> 32;
            }
            let mut k = i + o.0.len();
            while c > 0 {
                let t = r[k] as u64 + c;
                r[k] = t as u32;
                c = t >> 32;
                k += 1;
            }
        }
        RefNat(trim(r))
    }
    pub fn mul_small(&self, m: u32) -> RefNat {
        self.mul(&RefNat::from_u32s(&[m]))
    }
    pub fn add_small(&self, m: u32) -> RefNat {
        self.add(&RefNat::from_u32s(&[m]))
    }
    pub fn shl(&self, k: u64) -> RefNat {
        if self.is_zero() {
            return RefNat::zero();
        }
        let words = (k / 32) as usize;
        let bits = (k % 32) as u32;
        let mut r = vec![0u32; words];
        let mut c = 0u32;
        for &w in &self.0 {
            if bits == 0 {
                r.push(w);
            } else {
                r.push((w << bits) | c);
                c = w >> (32 - bits);
            }
        }
        if c > 0 {
            r.push(c);
        }
        RefNat(trim(r))
    }
    pub fn shr(&self, k: u64) -> RefNat {
        let words = (k / 32) as usize;
        let bits = (k % 32) as u32;
        if words >= self.0.len() {
            return RefNat::zero();
        }
        let src = &self.0[words..];
        let mut r = Vec::with_capacity(src.len());
        for i in 0..src.len() {
            if bits == 0 {
                r.push(src[i]);
            } else {
                let hi = src.get(i + 1).copied().unwrap_or(0);
                r.push((src[i] >> bits) | (hi << (32 - bits)));
            }
        }
        RefNat(trim(r))
    }
    pub fn divrem_small(&self, d: u32) -> (RefNat, u32) {
        assert!(d != 0);
        let mut q = vec![0u32; self.0.len()];
        let mut r = 0u64;
        for i in (0..self.0.len()).rev() {
            let cur = (r << 32) | self.0[i] as u64;
            q[i] = (cur / d as u64) as u32;
            r = cur % d as u64;
        }
        (RefNat(trim(q)), r as u32)
    }
    /// Compare self^n with x without computing more than necessary.
    pub fn pow_cmp(&self, n: u32, x: &RefNat) -> Ordering {
        if n == 0 {
            return RefNat::one().cmp(x);
        }
        if self.is_zero() {
            return RefNat::zero().cmp(x);
        }
        if self.0 == [1] {
            return RefNat::one().cmp(x);
        }
        // self >= 2: self^n has at least n+1 bits... (bits-1)*n + 1 <= bits(self^n)
        let lower_bits = (self.bits() - 1).saturating_mul(n as u64).saturating_add(1);
        if lower_bits > x.bits() {
            return Ordering::Greater;
        }
        // safe to compute: result has at most bits*n bits, and (bits-1)*n < x.bits
        let limit = x.bits() + 1;
        let mut acc = RefNat::one();
        let mut started = false;
        for i in (0..32).rev() {
            if started {
                acc = acc.mul(&acc);
                if acc.bits() > limit {
                    return Ordering::Greater;
                }
            }
            if (n >> i) & 1 == 1 {
                acc = acc.mul(self);
                started = true;
                if acc.bits() > limit {
                    return Ordering::Greater;
                }
            }
        }
        acc.cmp(x)
    }
    pub fn pow(&self, n: u32) -> RefNat {
        let mut acc = RefNat::one();
        for i in (0..32).rev() {
            acc = acc.mul(&acc);
            if (n >> i) & 1 == 1 {
                acc = acc.mul(self);
            }
        }
        acc
    }
    pub fn to_dec(&self) -> String {
        if self.is_zero() {
            return "0".into();
        }
        let mut cur = self.clone();
        let mut parts = Vec::new();
        while !cur.is_zero() {
            let (q, r) = cur.divrem_small(1_000_000_000);
            parts.push(r);
            cur = q;
        }
        let mut s = format!("{}", parts.pop().unwrap());
        while let Some(p) = parts.pop() {
            s.push_str(&format!("{:09}", p));
        }
        s
    }
    pub fn to_hex(&self) -> String {
        if self.is_zero() {
            return "0".into();
        }
        let mut s = format!("{:x}", self.0.last().unwrap());
        for w in self.0.iter().rev().skip(1) {
            s.push_str(&format!("{:08x}", w));
        }
        s
    }
}

/// Sign-and-magnitude reference integer; zero always has `neg == false`.
#[derive(Clone, Debug, PartialEq, Eq, Hash)]
pub struct RefInt {
    pub neg: bool,
    pub mag: RefNat,
}

impl RefInt {
    pub fn new(neg: bool, mag: RefNat) -> RefInt {
        let neg = neg && !mag.is_zero();
        RefInt { neg, mag }
    }
    pub fn from_i128(x: i128) -> RefInt {
        RefInt::new(x < 0, RefNat::from_u128(x.unsigned_abs()))
    }
    pub fn is_zero(&self) -> bool {
        self.mag.is_zero()
    }
    pub fn cmp(&self, o: &RefInt) -> Ordering {
        match (self.neg, o.neg) {
            (false, false) => self.mag.cmp(&o.mag),
            (true, true) => o.mag.cmp(&self.mag),
            (true, false) => Ordering::Less,
            (false, true) => Ordering::Greater,
        }
    }
    pub fn add(&self, o: &RefInt) -> RefInt {
        if self.neg == o.neg {
            RefInt::new(self.neg, self.mag.add(&o.mag))
        } else {
            match self.mag.cmp(&o.mag) {
                Ordering::Equal => RefInt::new(false, RefNat::zero()),
                Ordering::Greater => RefInt::new(self.neg, self.mag.sub(&o.mag).unwrap()),
                Ordering::Less => RefInt::new(o.neg, o.mag.sub(&self.mag).unwrap()),
            }
        }
    }
    pub fn neg(&self) -> RefInt {
        RefInt::new(!self.neg, self.mag.clone())
    }
    pub fn sub(&self, o: &RefInt) -> RefInt {
        self.add(&o.neg())
    }
    /// Shortest two's-complement little-endian encoding.
    pub fn to_signed_bytes_le(&self) -> Vec<u8> {
        if !self.neg {
            let mut b = self.mag.to_bytes_le();
            if b.last().map_or(false, |&t| t & 0x80 != 0) {
                b.push(0);
            }
            b
        } else {
            // two's complement of magnitude over enough bytes
            let m = self.mag.to_bytes_le();
            let mut b = m.clone();
            b.push(0);
            let mut carry = true;
            for x in b.iter_mut() {
                *x = !*x;
                if carry {
                    let (v, c) = x.overflowing_add(1);
                    *x = v;
                    carry = c;
                }
            }
            // strip redundant 0xff sign bytes
            while b.len() > 1 && b[b.len() - 1] == 0xff && b[b.len() - 2] & 0x80 != 0 {
                b.pop();
            }
            b
        }
    }
    /// Value denoted by a two's-complement little-endian byte string (empty = 0).
    pub fn from_signed_bytes_le(b: &[u8]) -> RefInt {
        if b.is_empty() {
            return RefInt::new(false, RefNat::zero());
        }
        if b[b.len() - 1] & 0x80 == 0 {
            RefInt::new(false, RefNat::from_bytes_le(b))
        } else {
            let mut v = b.to_vec();
            let mut carry = true;
            for x in v.iter_mut() {
                *x = !*x;
                if carry {
                    let (nv, c) = x.overflowing_add(1);
                    *x = nv;
                    carry = c;
                }
            }
            let mut mag = RefNat::from_bytes_le(&v);
            if carry {
                // only when all input bytes were zero, impossible here (top bit set)
                mag = RefNat::one().shl(8 * b.len() as u64);
            }
            RefInt::new(true, mag)
        }
    }
    pub fn to_dec(&self) -> String {
        if self.neg {
            format!("-{}", self.mag.to_dec())
        } else {
            self.mag.to_dec()
        }
    }
}
