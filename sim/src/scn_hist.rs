//! Scenarios built on the register machine: c04 (histories), c14h (size swarm, complement),
//! c14f (fault-site enumeration), c15 (allocator-guarded histories), c16 (configuration transcripts).

use crate::hist::{op_key, run_history, Cover, Opts};
use crate::histgen::{value_words, Gen, Profile};
use crate::plan::{fnv, Plan, Step};
use crate::prng::Prng;
use crate::sup::RunResult;

// family order: construct binop assign scalar shift mutate power integer checked export detour convert

fn lens_c04(rng: &mut Prng, thorough: bool) -> Vec<(usize, usize, u32)> {
    let pick = if thorough { rng.below(6) } else if rng.chance(1, 25) { 5 } else { rng.below(5) };
    match pick {
        0 => vec![(0, 6, 1)],
        1 => vec![(0, 24, 1)],
        2 => vec![(8, 22, 3), (0, 4, 1)],     // around the 5-digit asm block (10 words)
        3 => vec![(60, 140, 2), (0, 12, 1)],  // around the Karatsuba threshold (64 words = 32 digits)
        4 => vec![(0, 3, 1), (1, 1, 1), (2, 2, 1)],
        _ => vec![(500, 540, 1), (0, 40, 2)], // around Toom-3 (512 words)
    }
}

pub fn gen_c04(rng: &mut Prng, plan: &mut Plan) {
    let thorough = plan.tier == "thorough";
    let inject = rng.chance(1, 3);
    let lens = lens_c04(rng, thorough);
    let big = lens.iter().any(|l| l.1 > 200);
    let p = Profile {
        weights: [14, 10, 14, 10, 8, 12, 2, 5, 3, 2, 12, 6],
        lens,
        steps: if big { (6, 20) } else { (8, 60) },
        unsafe_permille: if inject { 120 } else { 0 },
        std_only: true,
        text_heavy: false,
        arrivals: true,
    };
    let alloc = if rng.chance(1, 10) { 1 } else { 0 };
    let mut steps = {
        let mut g = Gen::new(rng, &p);
        g.history()
    };
    // snapshots at random points
    let nsnap = rng.below(6);
    for _ in 0..nsnap {
        let at = rng.below(steps.len() as u64 + 1) as usize;
        let s = if rng.chance(1, 2) { Step::new("snap.u").i("a", rng.below(6) as i128) } else { Step::new("snap.i").i("a", rng.below(6) as i128) };
        steps.insert(at, s);
    }
    plan.cfg = Step::new("cfg").i("inject", inject as i128).i("alloc", alloc);
    plan.steps = steps;
}

/// `c17h`: the C04 history plans (same generator, hence the same vocabulary incl. arrivals and documented failures),
/// judged by the serde oracle only.
#[cfg(feature = "opt")]
pub fn exec_c17h(plan: &Plan) -> RunResult {
    run_history(plan, Opts { c17: true, cover: Cover::C17, ..Default::default() })
}

pub fn exec_c04(plan: &Plan) -> RunResult {
    run_history(
        plan,
        Opts {
            c04: true,
            c15: false,
            guard_alloc: plan.cfg.int("alloc") != 0,
            protect_borrowed: false,
            cover: Cover::C04,
            keep_unwound: false,
            c17: false,
        },
    )
}

// ---- C14 complement: operand lengths on both sides of every internal threshold -------------------

pub fn gen_c14h(rng: &mut Prng, plan: &mut Plan) {
    let thorough = plan.tier == "thorough";
    // lengths in 32-bit words; thresholds are in 64-bit digits: 5 (asm block), 32/33, 64, 256/257
    let pick = if thorough { rng.below(7) } else if rng.chance(1, 20) { 6 } else { rng.below(6) };
    let lens = match pick {
        0 => vec![(0, 14, 1)],
        1 => vec![(8, 12, 2), (18, 22, 2), (28, 32, 1), (0, 4, 1)],
        2 => vec![(60, 70, 3), (120, 134, 2), (2, 8, 1)],
        3 => vec![(126, 132, 2), (60, 68, 1), (250, 262, 1)],
        4 => vec![(0, 40, 1)],
        5 => vec![(62, 68, 2), (1, 2, 1), (3, 6, 1)],
        _ => if thorough && rng.chance(1, 3) { vec![(1540, 1620, 2), (510, 520, 1), (2, 6, 1)] } else { vec![(508, 520, 2), (1020, 1030, 1), (60, 70, 1), (2, 6, 1)] },
    };
    let big = lens.iter().any(|l| l.1 > 200);
    let p = Profile {
        // construct binop assign scalar shift mutate power integer checked export detour convert
        weights: [8, 16, 8, 8, 4, 4, 8, 10, 6, 8, 3, 3],
        lens,
        steps: if big { (4, 12) } else { (6, 40) },
        unsafe_permille: 0,
        std_only: true,
        text_heavy: false,
        arrivals: true,
    };
    plan.cfg = Step::new("cfg");
    let mut g = Gen::new(rng, &p);
    plan.steps = g.history();
}

pub fn exec_c14h(plan: &Plan) -> RunResult {
    let mut r = run_history(plan, Opts { cover: Cover::C14, ..Default::default() });
    // distinct = (operation form, operand length classes) actually executed; count per plan via the
    // library probes is done by the driver; here: every executed step form is a case
    for s in &plan.steps {
        r.cover.insert(fnv(format!("ok|{}|{}", op_key(s), s.int("t")).as_bytes()));
    }
    r.nontrivial = true;
    r
}

// ---- C14 fault enumeration -------------------------------------------------------------------------

const ZERO_U: i128 = 5; // register forced to zero
const SMALL_U: i128 = 4; // small non-zero
const BIG_U: i128 = 3; // larger than SMALL_U
const ZERO_I: i128 = 5;
const NEG_I: i128 = 4; // negative
const POS_I: i128 = 3; // positive

/// The complete list of fault sites: (operation form, failure class) pairs, each a step template
/// that meets a documented failure (or, for `neg:` sites, must NOT fail) on the prepared registers.
pub fn fault_sites() -> Vec<(String, Step)> {
    let mut v: Vec<(String, Step)> = Vec::new();
    let mut add = |name: String, s: Step| v.push((name, s));
    let bad_text = [0i128, 1, 37, 256, u32::MAX as i128];
    let bad_dig = [0i128, 1, 257, 512, 65536, u32::MAX as i128];
    for pre in ["u", "i"] {
        let nty: i128 = if pre == "u" { 6 } else { 12 };
        let (zero, small, bigr) = if pre == "u" { (ZERO_U, SMALL_U, BIG_U) } else { (ZERO_I, NEG_I, POS_I) };
        // division / remainder by zero, big by big
        for o in ["div", "rem"] {
            for f in 0..4 {
                for mv in 0..2 {
                    add(format!("{pre}.bin.{o}.f{f}.mv{mv}:div0"), Step::new(&format!("{pre}.bin")).s("o", o).i("f", f).i("mv", mv).i("d", 0).i("a", bigr).i("b", zero));
                }
            }
            for f in 0..2 {
                add(format!("{pre}.asn.{o}.f{f}:div0"), Step::new(&format!("{pre}.asn")).s("o", o).i("f", f).i("d", bigr).i("b", zero));
            }
            for t in 0..nty {
                for f in [0, 1, 4, 5, 7] {
                    add(format!("{pre}.sc.{o}.t{t}.f{f}:div0-scalar"), Step::new(&format!("{pre}.sc")).s("o", o).i("t", t).i("k", 0).i("f", f).i("d", bigr).i("a", bigr));
                }
                for f in [2, 3, 6, 8] {
                    add(format!("{pre}.sc.{o}.t{t}.f{f}:div0-big"), Step::new(&format!("{pre}.sc")).s("o", o).i("t", t).i("k", 77).i("f", f).i("d", 0).i("a", zero));
                }
            }
        }
        for t in 0..12 {
            for f in 0..(if pre == "u" { 2 } else { 4 }) {
                add(format!("{pre}.primrem.t{t}.f{f}:div0"), Step::new(&format!("{pre}.primrem")).i("t", t).i("k", 100).i("f", f).i("d", 0).i("b", zero));
            }
        }
        for o in ["div_rem", "div_floor", "mod_floor", "div_mod_floor", "div_ceil", "div_euclid", "rem_euclid", "div_rem_euclid", "next_multiple_of", "prev_multiple_of"] {
            add(format!("{pre}.int.{o}:div0"), Step::new(&format!("{pre}.int")).s("o", o).i("d", 0).i("a", bigr).i("b", zero));
        }
        // checked twins: None, never a panic
        for o in ["div", "div_euclid", "rem_euclid", "div_rem_euclid"] {
            for f in 0..2 {
                add(format!("{pre}.checked.{o}.f{f}:none"), Step::new(&format!("{pre}.checked")).s("o", o).i("f", f).i("d", 0).i("a", bigr).i("b", zero));
                add(format!("{pre}.checked.{o}.f{f}.zero-by-zero:none"), Step::new(&format!("{pre}.checked")).s("o", o).i("f", f).i("d", 0).i("a", zero).i("b", zero));
            }
        }
        // negative shift amounts: 6 signed types, all forms
        for op in ["shl", "shr"] {
            for t in 6..12 {
                for f in 0..6 {
                    add(format!("{pre}.{op}.t{t}.f{f}:negshift"), Step::new(&format!("{pre}.{op}")).i("t", t).i("k", -1).i("f", f).i("mv", f % 2).i("d", bigr).i("a", bigr));
                    add(format!("{pre}.{op}.t{t}.f{f}.zero:negshift"), Step::new(&format!("{pre}.{op}")).i("t", t).i("k", -64).i("f", f).i("d", zero).i("a", zero));
                }
            }
        }
        // radix out of range
        for r in bad_text {
            add(format!("{pre}.to_str.r{r}:radix"), Step::new(&format!("{pre}.to_str")).i("a", bigr).i("r", r));
            add(format!("{pre}.to_str.zero.r{r}:radix"), Step::new(&format!("{pre}.to_str")).i("a", zero).i("r", r));
            for f in 0..2 {
                add(format!("{pre}.parse.f{f}.r{r}:radix"), Step::new(&format!("{pre}.parse")).i("d", 0).i("f", f).i("r", r).s("s", "10"));
                // strings that are rejected before any digit is looked at: the radix check still comes first
                for (ti, t) in ["", "+", "-", "_1", "+_1", "-_", "_"].iter().enumerate() {
                    add(format!("{pre}.parse.f{f}.r{r}.t{ti}:radix"), Step::new(&format!("{pre}.parse")).i("d", 0).i("f", f).i("r", r).s("s", t));
                }
            }
        }
        for r in bad_dig {
            for f in 0..2 {
                add(format!("{pre}.to_radix.f{f}.r{r}:radix"), Step::new(&format!("{pre}.to_radix")).i("a", bigr).i("f", f).i("r", r));
                add(format!("{pre}.to_radix.zero.f{f}.r{r}:radix"), Step::new(&format!("{pre}.to_radix")).i("a", zero).i("f", f).i("r", r));
                add(format!("{pre}.from_radix.f{f}.r{r}:radix"), Step::new(&format!("{pre}.from_radix")).i("d", 0).i("f", f).i("sg", 1).i("r", r).l("v", vec![1, 0, 1]));
                add(format!("{pre}.from_radix.empty.f{f}.r{r}:radix"), Step::new(&format!("{pre}.from_radix")).i("d", 0).i("f", f).i("sg", 1).i("r", r).l("v", vec![]));
            }
        }
        // zero modulus
        add(format!("{pre}.modpow:zeromod"), Step::new(&format!("{pre}.modpow")).i("d", 0).i("a", bigr).i("b", if pre == "u" { small } else { bigr }).i("c", zero));
        add(format!("{pre}.modpow.exp0:zeromod"), Step::new(&format!("{pre}.modpow")).i("d", 0).i("a", bigr).i("b", zero).i("c", zero));
        add(format!("{pre}.modinv:zeromod"), Step::new(&format!("{pre}.modinv")).i("d", 0).i("a", bigr).i("b", zero));
        // zeroth root
        for f in 0..2 {
            add(format!("{pre}.root.nth0.f{f}:zeroth"), Step::new(&format!("{pre}.root")).s("o", "nth").i("k", 0).i("f", f).i("d", 0).i("a", bigr));
            add(format!("{pre}.root.nth0.zero.f{f}:zeroth"), Step::new(&format!("{pre}.root")).s("o", "nth").i("k", 0).i("f", f).i("d", 0).i("a", zero));
        }
        // empty / inverted random ranges and a zero bound (rand feature)
        for f in 0..8 {
            let w: Vec<u64> = vec![0x9e37_79b9, 0x7f4a_7c15, 0xffff_ffff, 0, 1];
            if f == 0 {
                add(format!("{pre}.rand.f0:zero-bound"), Step::new(&format!("{pre}.rand")).i("f", 0).i("d", 0).i("a", zero).i("b", zero).l("v", w.clone()));
            } else {
                add(format!("{pre}.rand.f{f}:inverted-range"), Step::new(&format!("{pre}.rand")).i("f", f).i("d", 0).i("a", bigr).i("b", if pre == "u" { small } else { small }).l("v", w.clone()));
                if f != 3 && f != 6 {
                    add(format!("{pre}.rand.f{f}:empty-range"), Step::new(&format!("{pre}.rand")).i("f", f).i("d", 0).i("a", bigr).i("b", bigr).l("v", w.clone()));
                    add(format!("{pre}.rand.f{f}:empty-range-zero"), Step::new(&format!("{pre}.rand")).i("f", f).i("d", 0).i("a", zero).i("b", zero).l("v", w.clone()));
                } else {
                    add(format!("neg:{pre}.rand.f{f}.single-value"), Step::new(&format!("{pre}.rand")).i("f", f).i("d", 0).i("a", bigr).i("b", bigr).l("v", w.clone()));
                }
                add(format!("neg:{pre}.rand.f{f}.valid"), Step::new(&format!("{pre}.rand")).i("f", f).i("d", 0).i("a", zero).i("b", bigr).l("v", w.clone()));
            }
        }
        // sites that must NOT fail
        add(format!("neg:{pre}.int.is_multiple_of.zero"), Step::new(&format!("{pre}.int")).s("o", "is_multiple_of").i("d", 0).i("a", bigr).i("b", zero));
        add(format!("neg:{pre}.int.gcd00"), Step::new(&format!("{pre}.int")).s("o", "gcd").i("d", 0).i("a", zero).i("b", zero));
        add(format!("neg:{pre}.int.lcm00"), Step::new(&format!("{pre}.int")).s("o", "lcm").i("d", 0).i("a", zero).i("b", zero));
        add(format!("neg:{pre}.int.gcd_lcm00"), Step::new(&format!("{pre}.int")).s("o", "gcd_lcm").i("d", 0).i("a", zero).i("b", zero));
        add(format!("neg:{pre}.shl.zero.huge"), Step::new(&format!("{pre}.shl")).i("t", 3).i("k", u64::MAX as i128).i("f", 0).i("d", 0).i("a", zero));
        add(format!("neg:{pre}.shr.huge"), Step::new(&format!("{pre}.shr")).i("t", 4).i("k", -1).i("f", 0).i("d", 0).i("a", bigr));
        for t in 0..6 {
            add(format!("neg:{pre}.pow0.t{t}.val"), Step::new(&format!("{pre}.pow")).i("t", t).i("k", 0).i("f", 1).i("mv", 1).i("d", 0).i("a", bigr));
            add(format!("neg:{pre}.pow0.t{t}.ref"), Step::new(&format!("{pre}.pow")).i("t", t).i("k", 0).i("f", 0).i("d", 0).i("a", zero));
        }
        for o in ["add", "sub", "mul", "div", "div_euclid", "rem_euclid", "div_rem_euclid"] {
            for f in 0..2 {
                add(format!("neg:{pre}.checked.{o}.f{f}.valid"), Step::new(&format!("{pre}.checked")).s("o", o).i("f", f).i("d", 0).i("a", bigr).i("b", small));
                add(format!("neg:{pre}.checked.{o}.f{f}.zero-dividend"), Step::new(&format!("{pre}.checked")).s("o", o).i("f", f).i("d", 0).i("a", zero).i("b", small));
            }
        }
        add(format!("neg:{pre}.modpow.mod1"), Step::new(&format!("{pre}.modpow")).i("d", 0).i("a", bigr).i("b", if pre == "u" { small } else { bigr }).i("c", 1));
        add(format!("neg:{pre}.root.nth.huge"), Step::new(&format!("{pre}.root")).s("o", "nth").i("k", u32::MAX as i128).i("f", 0).i("d", 0).i("a", bigr));
    }
    // BigUint subtraction below zero
    for f in 0..4 {
        for mv in 0..2 {
            add(format!("u.bin.sub.f{f}.mv{mv}:underflow"), Step::new("u.bin").s("o", "sub").i("f", f).i("mv", mv).i("d", 0).i("a", SMALL_U).i("b", BIG_U));
            add(format!("u.bin.sub.f{f}.mv{mv}.zero-minus:underflow"), Step::new("u.bin").s("o", "sub").i("f", f).i("mv", mv).i("d", 0).i("a", ZERO_U).i("b", SMALL_U));
        }
    }
    for f in 0..2 {
        add(format!("u.asn.sub.f{f}:underflow"), Step::new("u.asn").s("o", "sub").i("f", f).i("d", SMALL_U).i("b", BIG_U));
    }
    for t in 0..6 {
        for f in [0, 1, 4, 5, 7] {
            // zero register minus a non-zero scalar
            add(format!("u.sc.sub.t{t}.f{f}:underflow-scalar"), Step::new("u.sc").s("o", "sub").i("t", t).i("k", 200).i("f", f).i("d", ZERO_U).i("a", ZERO_U));
        }
        for f in [2, 3, 6, 8] {
            // scalar minus a register that does not fit the scalar type at all
            add(format!("u.sc.sub.t{t}.f{f}:underflow-big"), Step::new("u.sc").s("o", "sub").i("t", t).i("k", 5).i("f", f).i("mv", f % 2).i("d", 0).i("a", 2));
        }
    }
    add("u.dec.zero:underflow".into(), Step::new("u.dec").i("d", ZERO_U));
    add("u.checked.sub.f0:none".into(), Step::new("u.checked").s("o", "sub").i("f", 0).i("d", 0).i("a", SMALL_U).i("b", BIG_U));
    add("u.checked.sub.f1:none".into(), Step::new("u.checked").s("o", "sub").i("f", 1).i("d", 0).i("a", ZERO_U).i("b", BIG_U));
    // BigInt only: negative exponent, even roots of negatives
    add("i.modpow.negexp:negexp".into(), Step::new("i.modpow").i("d", 0).i("a", POS_I).i("b", NEG_I).i("c", POS_I));
    for f in 0..2 {
        add(format!("i.root.sqrt.neg.f{f}:evenroot"), Step::new("i.root").s("o", "sqrt").i("k", 2).i("f", f).i("d", 0).i("a", NEG_I));
        for n in [2i128, 4, 64, 4294967294] {
            add(format!("i.root.nth{n}.neg.f{f}:evenroot"), Step::new("i.root").s("o", "nth").i("k", n).i("f", f).i("d", 0).i("a", NEG_I));
        }
        for n in [1i128, 3, 5, 4294967295] {
            add(format!("neg:i.root.nth{n}.neg.f{f}"), Step::new("i.root").s("o", "nth").i("k", n).i("f", f).i("d", 0).i("a", NEG_I));
        }
        add(format!("neg:i.root.cbrt.neg.f{f}"), Step::new("i.root").s("o", "cbrt").i("k", 3).i("f", f).i("d", 0).i("a", NEG_I));
    }
    v
}

pub fn gen_c14f(rng: &mut Prng, plan: &mut Plan) {
    let sites = fault_sites();
    let site = (plan.index % sites.len() as u64) as usize;
    let lens = match rng.below(4) {
        0 => vec![(1, 4, 1)],
        1 => vec![(4, 24, 1)],
        2 => vec![(60, 140, 1), (2, 10, 1)],
        _ => vec![(0, 12, 1)],
    };
    let p = Profile {
        weights: [10, 10, 10, 8, 6, 8, 2, 4, 3, 3, 6, 4],
        lens,
        steps: (0, 10),
        unsafe_permille: 0,
        std_only: true,
        text_heavy: false,
        arrivals: true,
    };
    let mut steps = {
        let mut g = Gen::new(rng, &p);
        g.history()
    };
    // prepare the registers the site template relies on; SMALL < BIG, register 2 exceeds every scalar
    let small_len = rng.range(1, 3) as usize;
    let big_len = small_len + rng.range(1, 70) as usize;
    let small = value_words(rng, small_len);
    let big = value_words(rng, big_len);
    let huge_len = 5 + rng.below(8) as usize;
    let huge = value_words(rng, huge_len);
    steps.push(Step::new("u.set_zero").i("d", ZERO_U));
    steps.push(Step::new("u.new").i("d", SMALL_U).l32("v", &small));
    steps.push(Step::new("u.new").i("d", BIG_U).l32("v", &big));
    steps.push(Step::new("u.new").i("d", 2).l32("v", &huge));
    steps.push(Step::new("i.set_zero").i("d", ZERO_I));
    steps.push(Step::new("i.new").i("d", NEG_I).i("sg", -1).l32("v", &if rng.chance(1, 2) { small.clone() } else { big.clone() }));
    steps.push(Step::new("i.new").i("d", POS_I).i("sg", 1).l32("v", &if rng.chance(1, 2) { small.clone() } else { big.clone() }));
    steps.push(sites[site].1.clone().i("site", site as i128));
    // life goes on after the failure
    let tail = rng.below(5);
    let p2 = Profile { steps: (tail, tail), ..p.clone() };
    let mut g = Gen::new(rng, &p2);
    for _ in 0..tail {
        let fam = g.rng.below(11) as usize;
        let big = g.rng.chance(1, 2);
        steps.extend(g.step(fam, big));
    }
    plan.cfg = Step::new("cfg").i("site", site as i128).s("name", &sites[site].0);
    plan.steps = steps;
}

pub fn exec_c14f(plan: &Plan) -> RunResult {
    let mut r = run_history(plan, Opts { cover: Cover::None, ..Default::default() });
    // the site counts as exercised only if the run got past it without an unrelated violation
    let site = plan.cfg.int("site");
    let name = plan.cfg.str("name");
    let reached = r.violations.is_empty() || plan.steps.iter().position(|s| s.has("site")).map_or(false, |p| r.violations[0].step >= p);
    if reached && plan.steps.iter().any(|s| s.has("site")) {
        r.cover.insert(fnv(format!("site|{site}|{name}").as_bytes()));
        r.nontrivial = true;
        if name.starts_with("neg:") {
            r.reach("negative_sites_run");
        } else {
            r.reach("failure_sites_run");
        }
    }
    r
}

// ---- C15: the same plan under the plain and under the guarded allocator --------------------------------

pub fn gen_c15(rng: &mut Prng, plan: &mut Plan) {
    let thorough = plan.tier == "thorough";
    // lengths in 32-bit words; every residue of both operand lengths mod 5 native digits up to 5k+4
    let pick = if rng.chance(1, if thorough { 8 } else { 25 }) { 6 } else { rng.below(6) };
    let lens = match pick {
        6 => vec![(508, 524, 2), (250, 262, 1), (8, 12, 1)], // Toom-3 / Karatsuba recursion at digit offsets
        0 => vec![(0, 20, 1)],
        1 => vec![(8, 12, 2), (18, 22, 2), (28, 32, 2), (38, 50, 1), (0, 6, 1)],
        2 => vec![(9, 10, 2), (19, 20, 2), (29, 30, 1), (1, 8, 1)], // exactly 5k digits
        3 => vec![(60, 72, 2), (124, 134, 1), (6, 14, 1)],
        4 => vec![(2, 12, 1), (40, 50, 1)],
        _ => vec![(0, 48, 1)],
    };
    let p = Profile {
        // construct binop assign scalar shift mutate power integer checked export detour convert
        weights: [6, 20, 14, 8, 3, 4, 3, 8, 3, 10, 4, 2],
        steps: if lens.iter().any(|l| l.1 > 200) { (4, 12) } else { (6, 30) },
        lens,
        unsafe_permille: if rng.chance(1, 3) { 150 } else { 0 },
        std_only: true,
        text_heavy: true,
        arrivals: true,
    };
    let policy = rng.below(3) as i128; // 0 mixed, 1 always block-end at guard, 2 always block-start at guard
    let protect = if thorough { rng.chance(1, 2) } else { rng.chance(1, 4) };
    // fault model "unwound operation, object kept" (see Opts::keep_unwound): in half of the plans that contain
    // documented failures the receiver of the failed operation stays in use
    let keep = p.unsafe_permille > 0 && rng.chance(1, 2);
    let p = Profile { unsafe_permille: if keep { 250 } else { p.unsafe_permille }, ..p };
    plan.cfg = Step::new("cfg").i("policy", policy).i("protect", protect as i128).i("keep", keep as i128);
    let mut steps = {
        let mut g = Gen::new(rng, &p);
        g.history()
    };
    if keep {
        // make sure objects with high zero digits exist: a subtraction that underflows after cancelling all or the
        // upper digits of its receiver (the shape a plain random history almost never produces)
        for _ in 0..rng.range(1, 3) {
            let at = rng.below(steps.len() as u64 + 1) as usize;
            let v: Vec<u32> = match rng.below(3) {
                0 => vec![],
                1 => vec![rng.next_u32()],
                _ => vec![rng.next_u32(), rng.next_u32(), rng.next_u32() & 1],
            };
            steps.insert(at, Step::new("u.unwind").i("d", rng.below(6) as i128).i("k", rng.below(200) as i128).l32("v", &v));
        }
    }
    plan.steps = steps;
}

pub fn exec_c15(plan: &Plan) -> RunResult {
    // fault-free configuration first: plain allocator
    let keep_unwound = plan.cfg.int("keep") != 0;
    let plain = run_history(plan, Opts { c15: true, cover: Cover::C15, keep_unwound, ..Default::default() });
    if !plain.violations.is_empty() {
        return plain;
    }
    crate::simalloc::set_policy(plan.cfg.int("policy") as u8);
    let before = crate::simalloc::counters();
    let mut guarded = run_history(
        plan,
        Opts { c15: true, guard_alloc: true, protect_borrowed: plan.cfg.int("protect") != 0, cover: Cover::C15, keep_unwound, ..Default::default() },
    );
    let after = crate::simalloc::counters();
    guarded.reach_n("alloc_guard_end", after.0 - before.0);
    guarded.reach_n("alloc_guard_start", after.1 - before.1);
    guarded.reach_n("alloc_moved_on_realloc", after.2 - before.2);
    if after.3 != before.3 {
        guarded.reach_n("alloc_fallback_to_system", after.3 - before.3);
    }
    guarded.steps += plain.steps;
    if guarded.violations.is_empty() && guarded.digest != plain.digest {
        guarded.violate(
            "C15",
            "allocator-dependence",
            "history",
            0,
            format!("same plan, different transcript under the guarded/garbage allocator: {:016x} vs {:016x}", plain.digest, guarded.digest),
        );
    }
    // distinct case = (operation form, placement policy) with the asm loops reached
    for s in &plan.steps {
        guarded.cover.insert(fnv(format!("{}|{}|{}", op_key(s), plan.cfg.int("policy"), plan.cfg.int("protect")).as_bytes()));
    }
    guarded.nontrivial = after.0 + after.1 > before.0 + before.1;
    guarded
}

// ---- C16: one transcript per configuration ---------------------------------------------------------------

pub fn gen_c16(rng: &mut Prng, plan: &mut Plan) {
    let thorough = plan.tier == "thorough";
    let lens = match rng.below(if thorough { 7 } else { 6 }) {
        0 => vec![(0, 8, 1)],
        1 => vec![(3, 4, 2), (1, 2, 1)],         // 65..128 bits: just above the primitive root paths
        2 => vec![(120, 136, 2), (0, 10, 1)],    // both sides of the 64-digit big-base threshold
        3 => vec![(30, 36, 2), (60, 70, 1)],     // around 2^1024 (32 words) where the float guess ends
        4 => vec![(0, 40, 1)],
        5 => vec![(2, 6, 2), (30, 34, 1)],
        _ => vec![(250, 270, 1), (0, 20, 1)],
    };
    let p = Profile {
        // construct binop assign scalar shift mutate power integer checked export detour convert
        weights: [8, 8, 5, 5, 4, 4, 14, 8, 2, 22, 2, 3],
        lens,
        steps: (6, 36),
        unsafe_permille: if rng.chance(1, 4) { 100 } else { 0 },
        std_only: false,
        text_heavy: true,
        arrivals: false,
    };
    plan.cfg = Step::new("cfg");
    let mut g = Gen::new(rng, &p);
    plan.steps = g.history();
}

pub fn exec_c16(plan: &Plan) -> RunResult {
    let mut r = run_history(plan, Opts { cover: Cover::C16, ..Default::default() });
    for s in &plan.steps {
        r.cover.insert(fnv(format!("{}|{}|{}", op_key(s), s.int("t"), s.int("r")).as_bytes()));
    }
    r.nontrivial = true;
    r
}

// ---- C15 (rand): the u32 view of a u64 buffer in gen_biguint, into guarded memory -----------------------

#[cfg(feature = "opt")]
pub fn gen_c15rand(rng: &mut Prng, plan: &mut Plan) {
    let n = rng.range(1, 8);
    let mut words = Vec::new();
    for _ in 0..rng.range(0, 40) {
        words.push(rng.word32());
    }
    plan.cfg = Step::new("cfg").l32("words", &words).i("policy", rng.below(3) as i128);
    for _ in 0..n {
        let bits = match rng.below(8) {
            0 => 32 * rng.range(0, 12),
            1 => 64 * rng.range(0, 6) + 32,
            2 => 64 * rng.range(1, 6) + rng.range(33, 63),
            3 => 64 * rng.range(1, 6) - 1,
            4 => 64 * rng.range(0, 6) + 1,
            _ => rng.range(0, 200),
        };
        let op = *rng.pick(&["gen_biguint", "gen_biguint", "gen_bigint", "below", "random_bits"]);
        plan.steps.push(Step::new(op).i("n", bits as i128));
    }
}

#[cfg(feature = "opt")]
pub fn exec_c15rand(plan: &Plan) -> RunResult {
    use crate::obs::{denote_i, denote_u};
    use crate::plan::Digest;
    use crate::seams::SimRng;
    use crate::simalloc;
    use crate::sup::{at_step, catch};
    use num_bigint::{BigUint, RandBigInt, RandomBits};
    use rand::Rng;
    let words = plan.cfg.list32("words");
    let mut res = RunResult::default();
    let mut digests = [0u64; 2];
    simalloc::set_policy(plan.cfg.int("policy") as u8);
    for pass in 0..2 {
        let mut dg = Digest::new();
        let mut rng = SimRng::from_words(&words);
        if pass == 1 {
            simalloc::begin_run(plan.hash());
        }
        for (si, s) in plan.steps.iter().enumerate() {
            at_step(si);
            res.steps += 1;
            let n = s.u64("n");
            if pass == 1 {
                simalloc::set_mode(simalloc::GUARD);
            }
            let out = catch(|| match s.op.as_str() {
                "gen_biguint" => denote_u(&rng.gen_biguint(n)).0,
                "random_bits" => denote_u(&rng.sample::<BigUint, _>(RandomBits::new(n))).0,
                "gen_bigint" => {
                    let v = denote_i(&rng.gen_bigint(n));
                    let mut w = v.mag.0;
                    w.push(v.neg as u32);
                    w
                }
                _ => {
                    let b = (BigUint::from(1u8) << n) - 1u8;
                    if n == 0 {
                        return vec![];
                    }
                    denote_u(&rng.gen_biguint_below(&b)).0
                }
            });
            simalloc::set_mode(simalloc::PLAIN);
            match out {
                Ok(w) => dg.u32s(&w),
                Err(m) => {
                    res.violate("C14", "unexpected-panic", &s.op, si, m);
                    return res;
                }
            }
            res.cover.insert(fnv(format!("{}|{}|{}", s.op, n % 64, plan.cfg.int("policy")).as_bytes()));
        }
        digests[pass] = dg.0;
    }
    if digests[0] != digests[1] {
        res.violate("C15", "allocator-dependence", "gen_biguint", 0, format!("different results under the guarded allocator: {:016x} vs {:016x}", digests[0], digests[1]));
    }
    res.nontrivial = true;
    res.digest = digests[0];
    res
}

// ---- C15 (rand, histories): the C18 plans (scripted RNG streams, rejection retries, zero draws that are
// retried, very large sizes) executed under the guarded allocator ----------------------------------------

#[cfg(feature = "opt")]
pub fn gen_c15c18(rng: &mut Prng, plan: &mut Plan) {
    crate::scn_c18::gen(rng, plan);
    let policy = rng.below(3) as i128;
    // the very long stuck-at prefixes belong to C18; under the guarded allocator every retry costs a page mapping
    let mut cfg = Step::new("cfg");
    for (k, v) in &plan.cfg.args {
        match (k.as_str(), v) {
            ("stuck", crate::plan::Val::Int(n)) => cfg = cfg.i("stuck", (*n).min(4 * 400)),
            (k, crate::plan::Val::Int(n)) => cfg = cfg.i(k, *n),
            (k, crate::plan::Val::List(l)) => cfg = cfg.l(k, l.clone()),
            (k, crate::plan::Val::Str(t)) => cfg = cfg.s(k, t),
        }
    }
    plan.cfg = cfg.i("policy", policy);
}

#[cfg(feature = "opt")]
pub fn exec_c15c18(plan: &Plan) -> RunResult {
    use crate::simalloc;
    let plain = crate::scn_c18::exec(plan);
    if !plain.violations.is_empty() {
        return plain;
    }
    simalloc::set_policy(plan.cfg.int("policy") as u8);
    simalloc::begin_run(plan.hash());
    let before = simalloc::counters();
    simalloc::set_mode(simalloc::GUARD);
    let mut guarded = crate::scn_c18::exec(plan);
    simalloc::set_mode(simalloc::PLAIN);
    let after = simalloc::counters();
    guarded.reach_n("alloc_guard_end", after.0 - before.0);
    guarded.reach_n("alloc_guard_start", after.1 - before.1);
    guarded.steps += plain.steps;
    if guarded.violations.is_empty() && guarded.digest != plain.digest {
        guarded.violate(
            "C15",
            "allocator-dependence",
            "rand-history",
            0,
            format!("same RNG plan, different transcript under the guarded allocator: {:016x} vs {:016x}", plain.digest, guarded.digest),
        );
    }
    guarded.nontrivial = true;
    guarded
}
