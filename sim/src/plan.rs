//! A plan is everything one simulated run does, fixed before execution.
//! The text form is the replay file.

use std::fmt::Write as _;

#[derive(Clone, Debug, PartialEq)]
pub enum Val {
    Int(i128),
    List(Vec<u64>),
    Str(String),
}

#[derive(Clone, Debug, PartialEq)]
pub struct Step {
    pub op: String,
    pub args: Vec<(String, Val)>,
}

static EMPTY: [u64; 0] = [];

impl Step {
    pub fn new(op: &str) -> Step {
        Step {
            op: op.to_string(),
            args: Vec::new(),
        }
    }
    pub fn i(mut self, k: &str, v: i128) -> Step {
        self.args.push((k.to_string(), Val::Int(v)));
        self
    }
    pub fn l(mut self, k: &str, v: Vec<u64>) -> Step {
        self.args.push((k.to_string(), Val::List(v)));
        self
    }
    pub fn l32(self, k: &str, v: &[u32]) -> Step {
        self.l(k, v.iter().map(|&x| x as u64).collect())
    }
    pub fn s(mut self, k: &str, v: &str) -> Step {
        self.args.push((k.to_string(), Val::Str(v.to_string())));
        self
    }
    pub fn get(&self, k: &str) -> Option<&Val> {
        self.args.iter().find(|(kk, _)| kk == k).map(|(_, v)| v)
    }
    pub fn has(&self, k: &str) -> bool {
        self.get(k).is_some()
    }
    pub fn int(&self, k: &str) -> i128 {
        match self.get(k) {
            Some(Val::Int(i)) => *i,
            _ => 0,
        }
    }
    pub fn us(&self, k: &str) -> usize {
        let v = self.int(k);
        if v < 0 {
            0
        } else {
            v as usize
        }
    }
    pub fn u64(&self, k: &str) -> u64 {
        self.int(k) as u64
    }
    pub fn list(&self, k: &str) -> &[u64] {
        match self.get(k) {
            Some(Val::List(l)) => l,
            _ => &EMPTY,
        }
    }
    pub fn list32(&self, k: &str) -> Vec<u32> {
        self.list(k).iter().map(|&x| x as u32).collect()
    }
    pub fn list8(&self, k: &str) -> Vec<u8> {
        self.list(k).iter().map(|&x| x as u8).collect()
    }
    pub fn str(&self, k: &str) -> &str {
        match self.get(k) {
            Some(Val::Str(s)) => s,
            _ => "",
        }
    }
    pub fn render(&self) -> String {
        let mut o = String::new();
        o.push_str(&self.op);
        for (k, v) in &self.args {
            o.push(' ');
            o.push_str(k);
            o.push('=');
            match v {
                Val::Int(i) => {
                    let _ = write!(o, "{}", i);
                }
                Val::List(l) => {
                    o.push('[');
                    for (n, x) in l.iter().enumerate() {
                        if n > 0 {
                            o.push(',');
                        }
                        let _ = write!(o, "{}", x);
                    }
                    o.push(']');
                }
                Val::Str(s) => {
                    o.push('\'');
                    for b in s.bytes() {
                        if b.is_ascii_alphanumeric() || b"_-+.:/,<>=!*&|^~#".contains(&b) {
                            o.push(b as char);
                        } else {
                            let _ = write!(o, "%{:02x}", b);
                        }
                    }
                    o.push('\'');
                }
            }
        }
        o
    }
    pub fn parse(line: &str) -> Result<Step, String> {
        let mut it = line.split(' ').filter(|t| !t.is_empty());
        let op = it.next().ok_or("empty step")?.to_string();
        let mut args = Vec::new();
        for tok in it {
            let (k, v) = tok
                .split_once('=')
                .ok_or_else(|| format!("bad token {tok:?}"))?;
            let val = if let Some(rest) = v.strip_prefix('[') {
                let body = rest.strip_suffix(']').ok_or("unterminated list")?;
                if body.is_empty() {
                    Val::List(vec![])
                } else {
                    let mut l = Vec::new();
                    for p in body.split(',') {
                        l.push(p.parse::<u64>().map_err(|e| format!("{p:?}: {e}"))?);
                    }
                    Val::List(l)
                }
            } else if let Some(rest) = v.strip_prefix('\'') {
                let body = rest.strip_suffix('\'').ok_or("unterminated string")?;
                let b = body.as_bytes();
                let mut out = Vec::new();
                let mut i = 0;
                while i < b.len() {
                    if b[i] == b'%' && i + 3 <= b.len() {
                        let h = std::str::from_utf8(&b[i + 1..i + 3]).map_err(|e| e.to_string())?;
                        out.push(u8::from_str_radix(h, 16).map_err(|e| e.to_string())?);
                        i += 3;
                    } else {
                        out.push(b[i]);
                        i += 1;
                    }
                }
                Val::Str(String::from_utf8_lossy(&out).into_owned())
            } else {
                Val::Int(v.parse::<i128>().map_err(|e| format!("{v:?}: {e}"))?)
            };
            args.push((k.to_string(), val));
        }
        Ok(Step { op, args })
    }
}

#[derive(Clone, Debug, PartialEq)]
pub struct Plan {
    pub scenario: String,
    pub seed: u64,
    pub index: u64,
    pub tier: String,
    /// swarm configuration of the run (sizes, mixes, enabled fault kinds, allocator mode ...)
    pub cfg: Step,
    pub steps: Vec<Step>,
}

impl Plan {
    pub fn new(scenario: &str, seed: u64, index: u64, tier: &str) -> Plan {
        Plan {
            scenario: scenario.to_string(),
            seed,
            index,
            tier: tier.to_string(),
            cfg: Step::new("cfg"),
            steps: Vec::new(),
        }
    }
    pub fn render(&self) -> String {
        let mut o = String::new();
        o.push_str("nbsim-plan 1\n");
        let _ = writeln!(o, "scenario {}", self.scenario);
        let _ = writeln!(
            o,
            "origin seed={} index={} tier={}",
            self.seed, self.index, self.tier
        );
        let _ = writeln!(o, "{}", self.cfg.render());
        for s in &self.steps {
            let _ = writeln!(o, "step {}", s.render());
        }
        o
    }
    pub fn parse(text: &str) -> Result<Plan, String> {
        let mut p = Plan::new("", 0, 0, "quick");
        let mut seen_header = false;
        for raw in text.lines() {
            let line = raw.trim();
            if line.is_empty() || line.starts_with('#') {
                continue;
            }
            if line.starts_with("nbsim-plan") {
                seen_header = true;
            } else if let Some(r) = line.strip_prefix("scenario ") {
                p.scenario = r.trim().to_string();
            } else if let Some(r) = line.strip_prefix("origin ") {
                for tok in r.split(' ') {
                    if let Some((k, v)) = tok.split_once('=') {
                        match k {
                            "seed" => p.seed = v.parse().map_err(|e| format!("seed: {e}"))?,
                            "index" => p.index = v.parse().map_err(|e| format!("index: {e}"))?,
                            "tier" => p.tier = v.to_string(),
                            _ => {}
                        }
                    }
                }
            } else if line == "cfg" || line.starts_with("cfg ") {
                p.cfg = Step::parse(line)?;
            } else if let Some(r) = line.strip_prefix("step ") {
                p.steps.push(Step::parse(r)?);
            } else if line.starts_with("expect ") || line.starts_with("note ") {
                // informational lines written by the driver
            } else {
                return Err(format!("unrecognised plan line: {line:?}"));
            }
        }
        if !seen_header {
            return Err("missing nbsim-plan header".into());
        }
        if p.scenario.is_empty() {
            return Err("missing scenario".into());
        }
        Ok(p)
    }
    pub fn hash(&self) -> u64 {
        fnv(self.render_body().as_bytes())
    }
    /// Plan text without the origin line: two plans with the same body are the same case.
    fn render_body(&self) -> String {
        let mut o = String::new();
        o.push_str(&self.scenario);
        o.push('\n');
        o.push_str(&self.cfg.render());
        for s in &self.steps {
            o.push('\n');
            o.push_str(&s.render());
        }
        o
    }
}

pub fn fnv(bytes: &[u8]) -> u64 {
    let mut h = 0xcbf2_9ce4_8422_2325u64;
    for &b in bytes {
        h = (h ^ b as u64).wrapping_mul(0x100_0000_01b3);
    }
    h
}

/// Running digest of everything a run observed.
#[derive(Clone, Copy, Debug)]
pub struct Digest(pub u64);

impl Digest {
    pub fn new() -> Digest {
        Digest(0xcbf2_9ce4_8422_2325)
    }
    #[inline]
    pub fn u64(&mut self, x: u64) {
        let mut h = self.0;
        for i in 0..8 {
            h = (h ^ ((x >> (8 * i)) & 0xff)).wrapping_mul(0x100_0000_01b3);
        }
        self.0 = h;
    }
    #[inline]
    pub fn bytes(&mut self, b: &[u8]) {
        let mut h = self.0;
        for &x in b {
            h = (h ^ x as u64).wrapping_mul(0x100_0000_01b3);
        }
        h = (h ^ 0xff).wrapping_mul(0x100_0000_01b3);
        self.0 = h;
        self.u64(b.len() as u64);
    }
    pub fn str(&mut self, s: &str) {
        self.bytes(s.as_bytes())
    }
    pub fn u32s(&mut self, v: &[u32]) {
        for &x in v {
            self.u64(x as u64);
        }
        self.u64(0x1_0000_0000 + v.len() as u64);
    }
}

pub fn json_str(s: &str) -> String {
    let mut o = String::with_capacity(s.len() + 2);
    o.push('"');
    for c in s.chars() {
        match c {
            '"' => o.push_str("\\\""),
            '\\' => o.push_str("\\\\"),
            '\n' => o.push_str("\\n"),
            '\r' => o.push_str("\\r"),
            '\t' => o.push_str("\\t"),
            c if (c as u32) < 0x20 => {
                let _ = write!(o, "\\u{:04x}", c as u32);
            }
            c => o.push(c),
        }
    }
    o.push('"');
    o
}
